package main

import (
	"crypto/sha256"
	"encoding/binary"
	"fmt"
	"strings"
	"unicode/utf8"

	"github.com/buildbarn/bb-storage/pkg/blobstore/sharding"

	"verif/lib/gen"
)

// ---------------------------------------------------------------------------
// Shard map generation.

var specialWeights = []uint32{1, 2, 3, 1 << 16, 1 << 31, 1<<32 - 1}

const keyAlphabet = "abcdefghijklmnopqrstuvwxyzABCDEFGHIJKLMNOPQRSTUVWXYZ0123456789-_./:"

var unicodeBits = []string{"ü", "分片", "🙂", "ß", "ﬁ", "é", "é", "Ω", "​", "שָׁלוֹם"}

func genKey(r *gen.Rng, i int) string {
	switch r.Intn(12) {
	case 0:
		return fmt.Sprintf("%d", i)
	case 1:
		return fmt.Sprintf("shard-%d", i)
	case 2:
		return fmt.Sprintf("storage-%02d.example.com:8981", i)
	case 3: // long
		return strings.Repeat(string(rune('a'+r.Intn(26))), r.Range(200, 3000)) + fmt.Sprint(i)
	case 4: // unicode
		var sb strings.Builder
		for k := r.Range(1, 6); k > 0; k-- {
			sb.WriteString(unicodeBits[r.Intn(len(unicodeBits))])
		}
		return sb.String()
	case 5: // binary, NUL, invalid UTF-8
		return string(r.Bytes(24)[:r.Range(1, 24)])
	case 6: // near duplicates of each other
		return []string{"a", "a ", " a", "A", "a\x00", "a\n", "aa", "a/a", "a%s", "%s", "%!s(MISSING)", "Shard", "Shard a", ": "}[r.Intn(14)]
	case 7:
		return ""
	default:
		b := make([]byte, r.Range(1, 20))
		for k := range b {
			b[k] = keyAlphabet[r.Intn(len(keyAlphabet))]
		}
		return string(b)
	}
}

func genWeight(r *gen.Rng, mode int) uint32 {
	switch mode {
	case 0:
		return 1
	case 1:
		return 1<<32 - 1
	case 2:
		return specialWeights[r.Intn(len(specialWeights))]
	case 3:
		for {
			if v := uint32(r.Uint64()); v != 0 {
				return v
			}
		}
	case 4:
		return uint32(r.Range(1, 10))
	}
	return genWeight(r, r.Intn(5))
}

// Weight mode 7, "scaled": weights that share a common factor, as in
// hand-written configurations ({100,100,101}, {1000,2000,1000}, {6,6,9}):
// factor x small multiplier for every shard, and for half of the maps one
// shard that is off that grid (factor*m+-1, or a small weight). For such maps
// the greatest common divisor of the weights - the natural "unit" of the map -
// differs between the map and some of its single removals / additions, while
// the (key, weight) pairs of the other shards stay what they were. The property
// quantifies over arbitrary non-zero weights; this family is the part of that
// space in which a shard's routing could depend on the OTHER shards' weights
// through a shared scale, which uniformly random weights (gcd 1 before and
// after, almost surely) never exercise.
var scaleFactors = []uint32{2, 3, 6, 10, 100, 1000, 1 << 16}

func genScaledWeights(r *gen.Rng, n int) (ws []uint32, factor uint32) {
	factor = scaleFactors[r.Intn(len(scaleFactors))]
	if r.Chance(1, 4) {
		factor = uint32(r.Range(2, 1<<20))
	}
	for i := 0; i < n; i++ {
		ws = append(ws, factor*uint32(r.Pick(1, 1, 1, 2, 2, 3)))
	}
	if r.Chance(1, 2) {
		ws[r.Intn(n)] = offGridWeight(r, factor)
	}
	return ws, factor
}

// offGridWeight returns a non-zero weight that is (almost always) not a
// multiple of factor. factor >= 2.
func offGridWeight(r *gen.Rng, factor uint32) uint32 {
	m := uint32(r.Range(1, 3))
	switch r.Intn(4) {
	case 0:
		return factor*m + 1
	case 1:
		return factor*m - 1
	case 2:
		return uint32(r.Range(1, 9))
	}
	return 1
}

// scaledAdditionWeight is the weight of a shard added to a "scaled" map: on
// the grid or off it.
func scaledAdditionWeight(r *gen.Rng, factor uint32) uint32 {
	if r.Chance(1, 3) {
		return factor * uint32(r.Range(1, 3))
	}
	return offGridWeight(r, factor)
}

func gcd32(a, b uint32) uint32 {
	for b != 0 {
		a, b = b, a%b
	}
	return a
}

// weightsGCD is used for COVERAGE COUNTING only (how many removal / addition
// relations were evaluated across a change of the weights' common divisor).
func weightsGCD(m []sharding.Shard) uint32 {
	var g uint32
	for _, s := range m {
		g = gcd32(g, s.Weight)
	}
	return g
}

// genMap returns n shards with distinct keys. weightMode 0..5 as genWeight,
// 6: one common weight for all shards. (Mode 7 of the selector engine draws
// the keys here and the weights from genScaledWeights.)
func genMap(r *gen.Rng, n, weightMode int, avoid map[string]bool) []sharding.Shard {
	seen := map[string]bool{}
	for k := range avoid {
		seen[k] = true
	}
	common := genWeight(r, 5)
	out := make([]sharding.Shard, 0, n)
	for i := 0; i < n; i++ {
		k := genKey(r, i)
		for tries := 0; seen[k]; tries++ {
			k = genKey(r, i)
			if tries > 3 {
				k = fmt.Sprintf("%s#%d", k, r.Intn(1<<20))
			}
		}
		seen[k] = true
		w := common
		if weightMode != 6 {
			w = genWeight(r, weightMode)
		}
		out = append(out, sharding.Shard{Key: k, Weight: w})
	}
	return out
}

func showKey(k string) string {
	if len(k) > 28 {
		return fmt.Sprintf("%q…(%d bytes)", k[:20], len(k))
	}
	return fmt.Sprintf("%q", k)
}

func showMap(m []sharding.Shard) string {
	var parts []string
	for _, s := range m {
		parts = append(parts, fmt.Sprintf("%s:%d", showKey(s.Key), s.Weight))
	}
	return "[" + strings.Join(parts, " ") + "]"
}

func mapFingerprint(m []sharding.Shard) uint64 {
	h := sha256.New()
	for _, s := range m {
		var b [12]byte
		binary.BigEndian.PutUint64(b[:8], uint64(len(s.Key)))
		binary.BigEndian.PutUint32(b[8:], s.Weight)
		h.Write(b[:])
		h.Write([]byte(s.Key))
	}
	return binary.BigEndian.Uint64(h.Sum(nil)[:8])
}

func keyClass(k string) string {
	switch {
	case k == "":
		return "empty"
	case len(k) >= 200:
		return "long"
	case !utf8.ValidString(k):
		return "nonutf8"
	}
	for _, c := range k {
		if c >= 0x80 {
			return "unicode"
		}
	}
	return "ascii"
}

// ---------------------------------------------------------------------------
// Private model of the score function: INPUT GENERATION ONLY. It tells the
// generator which hashes put a shard's mixed value on a boundary and which
// hashes are exact ties. No verdict depends on it.

func keyHash(key string) uint64 {
	h := sha256.Sum256([]byte(key))
	return binary.BigEndian.Uint64(h[:8])
}

func mix(x uint64) uint64 {
	x ^= x >> 30
	x *= 0xbf58476d1ce4e5b9
	x ^= x >> 27
	x *= 0x94d049bb133111eb
	x ^= x >> 31
	return x
}

func modInv(a uint64) uint64 {
	x := a
	for i := 0; i < 7; i++ {
		x *= 2 - a*x
	}
	return x
}

var (
	inv1 = modInv(0xbf58476d1ce4e5b9)
	inv2 = modInv(0x94d049bb133111eb)
)

func unmix(x uint64) uint64 {
	x ^= x>>31 ^ x>>62
	x *= inv2
	x ^= x>>27 ^ x>>54
	x *= inv1
	x ^= x>>30 ^ x>>60
	return x
}

func selfTest() bool {
	r := gen.New(12)
	for i := 0; i < 1000; i++ {
		x := r.Uint64()
		if mix(unmix(x)) != x || unmix(mix(x)) != x {
			return false
		}
	}
	return mix(unmix(0)) == 0 && mix(unmix(^uint64(0))) == ^uint64(0)
}

func modelScore(x uint64, weight uint32) uint64 {
	den := uint64(64)<<16 - sharding.Log2Fixed(x) // the real, exported function
	if den == 0 {
		return ^uint64(0)
	}
	return (uint64(weight) << 32) / den
}

type modelMap struct {
	hashes  []uint64
	weights []uint32
}

func newModelMap(m []sharding.Shard) *modelMap {
	mm := &modelMap{}
	for _, s := range m {
		mm.hashes = append(mm.hashes, keyHash(s.Key))
		mm.weights = append(mm.weights, s.Weight)
	}
	return mm
}

// top returns the predicted winner (ties: lowest key hash), the number of
// shards sharing the best score and the gap to the runner-up.
func (mm *modelMap) top(h uint64) (winner, tied int, best uint64) {
	winner = -1
	for i, kh := range mm.hashes {
		s := modelScore(mix(kh^h), mm.weights[i])
		switch {
		case winner < 0 || s > best:
			winner, tied, best = i, 1, s
		case s == best:
			tied++
			if kh < mm.hashes[winner] {
				winner = i
			}
		}
	}
	return
}

func (mm *modelMap) describe(h uint64) string {
	var parts []string
	for i, kh := range mm.hashes {
		x := mix(kh ^ h)
		parts = append(parts, fmt.Sprintf("#%d{keyhash=%016x mixed=%016x log2fixed=%#x score=%d}", i, kh, x, sharding.Log2Fixed(x), modelScore(x, mm.weights[i])))
	}
	return strings.Join(parts, " ")
}

// hashFor returns the hash for which shard i's mixed value is x.
func (mm *modelMap) hashFor(i int, x uint64) uint64 { return mm.hashes[i] ^ unmix(x) }

// findTies searches for hashes whose best score is shared by at least two
// shards. A tie between equal-weight shards is most likely when the mixed
// value is around 2^61 (coarse quotient, still probable), so one shard's mixed
// value is steered there and the others are left to chance.
func (mm *modelMap) findTies(r *gen.Rng, budget, want int) (ties []uint64, tries int) {
	n := len(mm.hashes)
	if n < 2 {
		return nil, 0
	}
	for tries < budget && len(ties) < want {
		tries++
		a := int(r.Uint64() % uint64(n))
		var x uint64
		if tries&3 == 0 {
			x = r.Uint64()
		} else {
			x = 1<<60 + r.Uint64()>>2 // [2^60, 2^62+2^60)
		}
		h := mm.hashes[a] ^ unmix(x)
		if _, tied, _ := mm.top(h); tied >= 2 {
			ties = append(ties, h)
		}
	}
	return
}

// findNearTies searches for hashes at which the two best shards score within
// a relative 2^-13 of each other (exact ties included). These are the inputs
// on which the ORDER of two shards is decided by the last few bits of the
// integer quotient in score(): any rounding, rescaling or normalisation of
// the weights that is not the same for the map and for its removals /
// additions shows there and nowhere else. One shard's mixed value is steered to
// [2^(63-s), 2^(64-s)), s in 0..3 (where a runner-up that close is most
// probable while the remaining shards still score lower); the other shards are
// left to chance.
func (mm *modelMap) findNearTies(r *gen.Rng, budget, want int) (near []uint64, tries int) {
	n := len(mm.hashes)
	if n < 2 {
		return nil, 0
	}
	shifts := [8]uint{0, 1, 1, 2, 2, 2, 3, 3}
	for tries < budget && len(near) < want {
		tries++
		v := r.Uint64()
		a := int((v >> 8) % uint64(n))
		x := (1<<63 | r.Uint64()>>1) >> shifts[v&7]
		h := mm.hashes[a] ^ unmix(x)
		var s1, s2 uint64
		for i, kh := range mm.hashes {
			s := modelScore(mix(kh^h), mm.weights[i])
			if s > s1 {
				s1, s2 = s, s1
			} else if s > s2 {
				s2 = s
			}
		}
		if s1-s2 <= s1>>13 {
			near = append(near, h)
		}
	}
	return
}

// boundaryXs are the mixed values at which Log2Fixed changes regime: tiny
// values, powers of two +-1, and for every bit length every LUT index
// boundary +-1.
var boundaryXs = func() []uint64 {
	var xs []uint64
	for x := uint64(0); x <= 300; x++ {
		xs = append(xs, x)
	}
	for k := uint(8); k < 64; k++ {
		xs = append(xs, 1<<k-1, 1<<k, 1<<k+1)
	}
	for m := uint(7); m < 64; m++ {
		for i := uint64(0); i < 64; i++ {
			base := uint64(1)<<m | i<<(m-6)
			xs = append(xs, base-1, base, base+1)
		}
	}
	for d := uint64(0); d < 70; d++ {
		xs = append(xs, ^uint64(0)-d)
	}
	return xs
}()

var specialHashes = []uint64{
	0, 1, 2, 3, 1<<63 - 1, 1 << 63, 1<<63 + 1, ^uint64(0) - 1, ^uint64(0),
	1<<32 - 1, 1 << 32, 1<<32 + 1, 0xffffffff00000000, 0x0101010101010101,
	0x5555555555555555, 0xaaaaaaaaaaaaaaaa,
}
