// C12 — sharding: deterministic, order-independent routing with minimal
// disruption; FindMissing partitions and unions; errors carry the shard key.
//
// Three engines, all driving the REAL bb-storage code:
//
//	selector  metamorphic monitor around sharding.NewRendezvousShardSelector:
//	          for one shard map the base selector, a second construction,
//	          permutations (all of them for n<=4), every single removal and
//	          several single additions are built, and every hash is routed
//	          through all of them. Oracle: same key under permutation and
//	          re-construction; a removal changes the answer only for hashes
//	          the removed shard owned; an addition changes it only to the new
//	          shard. Hashes: specials, random, values constructed through the
//	          inverse of splitmix64 so that a chosen shard's mixed value lands
//	          on Log2Fixed table / power-of-two boundaries, exact score
//	          TIES found by search (the only inputs on which the tie-break
//	          order is visible) and NEAR TIES found by search (two best
//	          shards within a relative 2^-13: the inputs on which removal /
//	          addition only hold if every surviving shard's score is
//	          bit-for-bit the same number in the smaller / larger map).
//	          Shard maps include "scaled" ones whose weights share a common
//	          factor ({100,100,101}, {6,6,9}, {2000,1000,1000}+7), so that
//	          the common divisor of the weights differs between the map and
//	          some of its single removals / additions.
//	access    recording, failure-injecting backends behind two real
//	          sharding.NewShardingBlobAccess composites (listing order L and a
//	          permutation of L, sharing the backends by key). Oracle: Put, Get,
//	          GetFromComposite and FindMissing for digests sharing their
//	          leading 8 hash bytes (other bytes, size, digest function and
//	          instance name vary) address the same shard through both
//	          composites; FindMissing asks a shard only about its own digests,
//	          forwards every digest, returns exactly the union of the (possibly
//	          hostile) answers; every backend failure comes back carrying the
//	          failing shard's key.
//	config    configuration.NewBlobAccessFromConfiguration with a sharding
//	          map over `error` leaves whose message names the leaf: routing
//	          must equal that of a hand-built composite over the same
//	          (key, weight) set, be the same for two constructions (Go map
//	          order differs) and for Get/Put/FindMissing, and the error must
//	          carry the key of the shard whose leaf failed.
//
// The reference in every engine is a relation between executions of the real
// code (or the recorded calls), never a re-implementation of the score
// function: the private model of score() in gen.go is used only to FIND
// interesting hashes (ties, boundaries); its agreement with the real code is
// counted, not demanded.
package main

import (
	"time"

	"verif/lib/run"
)

func main() {
	run.Main(run.Spec{
		Property: "C12",
		Level:    "exploration",
		Rule: "selector: case = shard map (1-12 shards; keys empty/ascii/long/unicode/binary/near-duplicate; weights from {1,2,3,2^16,2^31,2^32-1}, small, random, one common weight, or common factor x {1,2,3} with an optional off-grid shard so that single removals/additions change the weights' gcd) x {second construction, permutations (all for n<=4), every single removal, 2-3 single additions at random positions} x hashes {16 specials, random, constructed via splitmix64^-1 to put a chosen shard's mixed value on Log2Fixed LUT/power-of-two boundaries, exact score ties found by search, near ties (two best shards within 2^-13 relative) found by search}; " +
			"access: case = shard map x two real ShardingBlobAccess composites (listing order and a permutation) over recording failure-injecting backends x 25-45 operations (Put/Get/GetFromComposite/FindMissing/GetCapabilities) on digests grouped by their leading 8 hash bytes with varying tail, size, digest function and instance name, backend answers honest/hostile/failing; " +
			"config: case = sharding configuration over error leaves built twice through NewBlobAccessFromConfiguration vs a hand-built composite; " +
			"distinct = (shard-map fingerprint, hash) for selector evaluations with >=2 shards, (map, operation, digest set) for access/config; non-trivial = at least two shards",
		Workers:     8,
		CaseTimeout: 120 * time.Second,
		Floors: map[string]int64{
			"sel_evals":                                   200000,
			"sel_perm_checks":                             1200000,
			"sel_removal_checks":                          1000000,
			"sel_removal_owner_rerouted":                  250000,
			"sel_addition_checks":                         500000,
			"sel_addition_moved_to_new":                   150000,
			"sel_tie_hashes":                              100,
			"sel_boundary_hashes":                         70000,
			"sel_special_hashes":                          12000,
			"sel_model_winner_agrees":                     200000,
			"sel_maps_with_weight_max":                    250,
			"sel_maps_all_perms":                          400,
			"sel_maps_scaled_weights":                     300,
			"sel_neartie_hashes":                          2000,
			"sel_maps_with_nearties_and_rescaled_variant": 300,
			"sel_closecall_rescaled_removal_checks":       500,
			"sel_closecall_rescaled_addition_checks":      2000,
			"acc_single_ops":                              8000,
			"acc_same_prefix_comparisons":                 6000,
			"acc_permuted_composite_comparisons":          3000,
			"acc_cross_instance_same_hash":                8000,
			"acc_cross_function_same_hash":                8000,
			"acc_findmissing_calls":                       3000,
			"acc_findmissing_multi_shard":                 1400,
			"acc_findmissing_hostile":                     900,
			"acc_findmissing_failed":                      400,
			"acc_errors_checked":                          4000,
			"acc_error_key_discriminating":                3500,
			"acc_get_midstream_failures":                  700,
			"cfg_routing_comparisons":                     1500,
		},
		Assumptions: []string{
			"shard keys within one map are distinct (the configuration is a map keyed by shard key) and weights are non-zero (the configuration rejects zero)",
			"a constructor error for distinct keys would need a 64-bit SHA-256 prefix collision and is reported as a violation",
			"'leading bytes' is read as the first 8 bytes of the hash: digests that share them must be co-located; nothing is demanded of digests that differ within them",
			"'errors carry the shard key' is read as: the failing shard's error comes back with its message and status code intact and with the shard key added to the message",
			"GetFromComposite is an operation on the parent object and must address the shard that holds the parent",
			"'rescaled' (the gcd of a variant's weights differs from the base map's) is computed by the harness for coverage counters only; near-tie and tie hashes get exactly the same oracle as every other hash",
			"the private model of score() (exported sharding.Log2Fixed + own splitmix64/SHA-256 key hash) only steers input generation; counters sel_model_winner_{agrees,disagrees} report how faithful it was",
		},
		Body: body,
	})
}

func body(w *run.Worker) {
	if !selfTest() {
		w.Inconclusive("generator self-test failed: unmix is not the inverse of splitmix64")
		return
	}
	selectorEngine(w)
	accessEngine(w)
	configEngine(w)
}
