package main

import (
	"context"
	"sync"

	remoteexecution "github.com/bazelbuild/remote-apis/build/bazel/remote/execution/v2"
	"github.com/buildbarn/bb-storage/pkg/blobstore/buffer"
	"github.com/buildbarn/bb-storage/pkg/blobstore/sharding"
	"github.com/buildbarn/bb-storage/pkg/blobstore/slicing"
	"github.com/buildbarn/bb-storage/pkg/digest"

	"google.golang.org/grpc/codes"
	"google.golang.org/grpc/status"

	"verif/lib/model"
)

// recStore is the recording backend behind the sharding composite. It is a
// local type rather than model.Store because it must be able to answer
// FindMissing dishonestly (subset, superset, digests never asked about) and
// to fail a Get in the middle of the stream; otherwise it follows the same
// conventions (every call is logged with its digests and its raw result).
type recStore struct {
	key string

	mu    sync.Mutex
	calls []recCall

	// Behaviour of the next operations, set by the case.
	getMode  int // 0 data, 1 immediate error, 2 error after getFailAt bytes
	getData  []byte
	getFail  int
	putMode  int // 0 consume and succeed, 1 discard and fail, 2 consume and fail
	fmMode   int // 0 honest, 1 all missing, 2 none missing, 3 pseudo-random subset, 4 honest + foreign digests, 5 error, 6 fail iff the context is already cancelled
	fmSalt   uint64
	fmExtra  []digest.Digest
	capFail  bool
	ordinal  int
	errCode  codes.Code
	errSeq   int
	present  map[digest.Digest]bool
	trackers []*model.Tracker
}

type recCall struct {
	op      string
	digests []digest.Digest
	err     error           // raw error this backend produced (nil: success)
	answer  []digest.Digest // FindMissing answer
}

func newRecStore(key string, ordinal int) *recStore {
	return &recStore{key: key, ordinal: ordinal, errCode: codes.Unavailable, present: map[digest.Digest]bool{}}
}

// nextErr produces the next injected failure of this backend. The message
// identifies the backend by ordinal and sequence number, never by shard key.
func (s *recStore) nextErr() error {
	s.mu.Lock()
	s.errSeq++
	n := s.errSeq
	s.mu.Unlock()
	return status.Errorf(s.errCode, "injected failure [%d] of backend [%d]", n, s.ordinal)
}

func (s *recStore) log(c recCall) {
	s.mu.Lock()
	s.calls = append(s.calls, c)
	s.mu.Unlock()
}

func (s *recStore) take() []recCall {
	s.mu.Lock()
	defer s.mu.Unlock()
	c := s.calls
	s.calls = nil
	return c
}

func (s *recStore) Get(ctx context.Context, d digest.Digest) buffer.Buffer {
	switch s.getMode {
	case 1:
		err := s.nextErr()
		s.log(recCall{op: "Get", digests: []digest.Digest{d}, err: err})
		return buffer.NewBufferFromError(err)
	case 2:
		err := s.nextErr()
		s.log(recCall{op: "Get", digests: []digest.Digest{d}, err: err})
		b, t := model.NewTrackedCASBuffer(d, model.SourceSpec{Data: s.getData, Chunks: []int{3, 1, 5, 2, 7, 4, 6, 8, 9, 10, 11, 12, 13, 14, 15, 16}, FailAt: s.getFail, FailErr: err}, buffer.BackendProvided(buffer.Irreparable(d)))
		s.trackers = append(s.trackers, t)
		return b
	}
	s.log(recCall{op: "Get", digests: []digest.Digest{d}})
	return buffer.NewValidatedBufferFromByteSlice(append([]byte(nil), s.getData...))
}

func (s *recStore) GetFromComposite(ctx context.Context, parent, child digest.Digest, slicer slicing.BlobSlicer) buffer.Buffer {
	if s.getMode != 0 {
		err := s.nextErr()
		s.log(recCall{op: "GetFromComposite", digests: []digest.Digest{parent, child}, err: err})
		return buffer.NewBufferFromError(err)
	}
	s.log(recCall{op: "GetFromComposite", digests: []digest.Digest{parent, child}})
	b, _ := slicer.Slice(buffer.NewValidatedBufferFromByteSlice(append([]byte(nil), s.getData...)), child)
	return b
}

func (s *recStore) Put(ctx context.Context, d digest.Digest, b buffer.Buffer) error {
	switch s.putMode {
	case 1:
		b.Discard()
		err := s.nextErr()
		s.log(recCall{op: "Put", digests: []digest.Digest{d}, err: err})
		return err
	case 2:
		b.ToByteSlice(1 << 20)
		err := s.nextErr()
		s.log(recCall{op: "Put", digests: []digest.Digest{d}, err: err})
		return err
	}
	if _, err := b.ToByteSlice(1 << 20); err != nil {
		s.log(recCall{op: "Put", digests: []digest.Digest{d}, err: err})
		return err
	}
	s.mu.Lock()
	s.present[d] = true
	s.mu.Unlock()
	s.log(recCall{op: "Put", digests: []digest.Digest{d}})
	return nil
}

func (s *recStore) FindMissing(ctx context.Context, ds digest.Set) (digest.Set, error) {
	asked := append([]digest.Digest(nil), ds.Items()...)
	fail := s.fmMode == 5 || (s.fmMode == 6 && ctx.Err() != nil)
	if fail {
		err := s.nextErr()
		s.log(recCall{op: "FindMissing", digests: asked, err: err})
		return digest.EmptySet, err
	}
	sb := digest.NewSetBuilder(0)
	var answer []digest.Digest
	add := func(d digest.Digest) {
		sb.Add(d)
		answer = append(answer, d)
	}
	for _, d := range asked {
		var missing bool
		switch s.fmMode {
		case 1:
			missing = true
		case 2:
			missing = false
		case 3:
			missing = mix(keyHash(d.String())^s.fmSalt)&1 == 0
		default:
			s.mu.Lock()
			missing = !s.present[d]
			s.mu.Unlock()
		}
		if missing {
			add(d)
		}
	}
	if s.fmMode == 4 {
		for _, d := range s.fmExtra {
			add(d)
		}
	}
	s.log(recCall{op: "FindMissing", digests: asked, answer: answer})
	return sb.Build(), nil
}

func (s *recStore) GetCapabilities(ctx context.Context, in digest.InstanceName) (*remoteexecution.ServerCapabilities, error) {
	if s.capFail {
		err := s.nextErr()
		s.log(recCall{op: "GetCapabilities", err: err})
		return nil, err
	}
	s.log(recCall{op: "GetCapabilities"})
	return &remoteexecution.ServerCapabilities{CacheCapabilities: &remoteexecution.CacheCapabilities{DigestFunctions: digest.SupportedDigestFunctions}}, nil
}

// spySelector records what the composite asks the real selector and what the
// real selector answers (observation point ShardSelector.GetShard).
type spySelector struct {
	inner sharding.ShardSelector
	mu    sync.Mutex
	calls []spyCall
}

type spyCall struct {
	hash   uint64
	result int
}

func (s *spySelector) GetShard(h uint64) int {
	r := s.inner.GetShard(h)
	s.mu.Lock()
	s.calls = append(s.calls, spyCall{h, r})
	s.mu.Unlock()
	return r
}

func (s *spySelector) take() []spyCall {
	s.mu.Lock()
	defer s.mu.Unlock()
	c := s.calls
	s.calls = nil
	return c
}
