package main

import (
	"fmt"
	"strconv"

	"github.com/buildbarn/bb-storage/pkg/blobstore/sharding"

	"verif/lib/run"
)

const (
	vSame = iota
	vPerm
	vRemoval
	vAddition
)

// variant is one selector derived from the base shard list, with the mapping
// from the indices it returns back to indices of the base list.
type variant struct {
	kind    int
	sel     sharding.ShardSelector
	list    []sharding.Shard
	toOrig  []int // index returned -> base index; -1: the added shard
	removed int   // vRemoval: base index that was dropped
	desc    string
	// rescaled: the greatest common divisor of the variant's weights differs
	// from that of the base map (coverage counting only).
	rescaled bool
}

func newSelector(c *run.Case, list []sharding.Shard, what string) sharding.ShardSelector {
	s, err := sharding.NewRendezvousShardSelector(list)
	if err != nil {
		c.Violation("NewRendezvousShardSelector:rejects-valid-shard-map", "constructing the %s selector over distinct keys and non-zero weights failed: %v; map=%s", what, err, showMap(list))
		return nil
	}
	return s
}

func permuted(base []sharding.Shard, p []int) ([]sharding.Shard, []int) {
	l := make([]sharding.Shard, len(p))
	for j, i := range p {
		l[j] = base[i]
	}
	return l, append([]int(nil), p...)
}

func allPerms(n int) [][]int {
	var out [][]int
	p := make([]int, n)
	for i := range p {
		p[i] = i
	}
	var rec func(k int)
	rec = func(k int) {
		if k == n {
			out = append(out, append([]int(nil), p...))
			return
		}
		for i := k; i < n; i++ {
			p[k], p[i] = p[i], p[k]
			rec(k + 1)
			p[k], p[i] = p[i], p[k]
		}
	}
	rec(0)
	return out
}

func selectorEngine(w *run.Worker) {
	// quick: 4000 maps; thorough: 200000 maps (x ~300 hashes each).
	w.Cases("selector", w.N(4000, 200000), func(c *run.Case) {
		r := c.Rng
		// Shape of the case.
		tieCase := r.Chance(1, 3)
		var n int
		switch {
		case tieCase:
			n = r.Pick(2, 2, 2, 3, 3, 4)
		case r.Chance(1, 12):
			n = 1
		case r.Chance(1, 2):
			n = r.Range(2, 5)
		default:
			n = r.Range(6, 12)
		}
		weightMode := r.Pick(0, 1, 2, 3, 4, 5, 5, 6, 7)
		if tieCase {
			weightMode = r.Pick(0, 0, 4, 6, 6, 6, 7, 7, 7)
		}
		var base []sharding.Shard
		var factor uint32 // weightMode 7: the common factor of the weight grid
		if weightMode == 7 {
			base = genMap(r, n, 0, nil)
			var ws []uint32
			ws, factor = genScaledWeights(r, n)
			for i := range base {
				base[i].Weight = ws[i]
			}
			w.Count("sel_maps_scaled_weights", 1)
		} else {
			base = genMap(r, n, weightMode, nil)
		}
		fp := mapFingerprint(base)
		c.Desc("n=%d weightMode=%d tieCase=%v map=%s", n, weightMode, tieCase, showMap(base))
		w.Count("sel_maps", 1)
		w.Count(fmt.Sprintf("sel_maps_n%02d", n), 1)
		hasMax, hasOne := false, false
		for _, s := range base {
			w.Count("sel_keys_"+keyClass(s.Key), 1)
			hasMax = hasMax || s.Weight == 1<<32-1
			hasOne = hasOne || s.Weight == 1
		}
		if hasMax {
			w.Count("sel_maps_with_weight_max", 1)
		}
		if hasOne {
			w.Count("sel_maps_with_weight_one", 1)
		}

		baseSel := newSelector(c, base, "base")
		if baseSel == nil {
			return
		}
		mm := newModelMap(base)
		var variants []*variant

		// Second construction from an equal list.
		if s := newSelector(c, append([]sharding.Shard(nil), base...), "second"); s != nil {
			id := make([]int, n)
			for i := range id {
				id[i] = i
			}
			variants = append(variants, &variant{kind: vSame, sel: s, list: base, toOrig: id, desc: "second construction"})
		}
		// Permutations: all of them for small maps, else reverse, rotation and
		// random ones.
		if n >= 2 {
			var perms [][]int
			if n <= 4 || (w.Thorough() && n <= 6 && r.Chance(1, 8)) {
				perms = allPerms(n)[1:]
				w.Count("sel_maps_all_perms", 1)
			} else {
				rev := make([]int, n)
				rot := make([]int, n)
				for i := range rev {
					rev[i] = n - 1 - i
					rot[i] = (i + 1) % n
				}
				perms = [][]int{rev, rot, r.Perm(n), r.Perm(n)}
			}
			for _, p := range perms {
				l, to := permuted(base, p)
				if s := newSelector(c, l, "permuted"); s != nil {
					variants = append(variants, &variant{kind: vPerm, sel: s, list: l, toOrig: to, desc: fmt.Sprintf("permutation %v", p)})
				}
			}
			// Every single removal, in listing order and (for one extra
			// variant each) shuffled.
			for i := 0; i < n; i++ {
				var keep []int
				for j := 0; j < n; j++ {
					if j != i {
						keep = append(keep, j)
					}
				}
				l, to := permuted(base, keep)
				if s := newSelector(c, l, "removal"); s != nil {
					variants = append(variants, &variant{kind: vRemoval, sel: s, list: l, toOrig: to, removed: i, desc: fmt.Sprintf("removal of #%d", i)})
				}
				if n >= 3 && r.Chance(1, 3) {
					sh := r.Perm(len(keep))
					k2 := make([]int, len(keep))
					for a, b := range sh {
						k2[a] = keep[b]
					}
					l, to := permuted(base, k2)
					if s := newSelector(c, l, "removal+shuffle"); s != nil {
						variants = append(variants, &variant{kind: vRemoval, sel: s, list: l, toOrig: to, removed: i, desc: fmt.Sprintf("removal of #%d, rest listed as %v", i, k2)})
					}
				}
			}
		}
		// Single additions at random positions.
		avoid := map[string]bool{}
		for _, s := range base {
			avoid[s.Key] = true
		}
		for a := r.Range(2, 3); a > 0; a-- {
			var add sharding.Shard
			if am := r.Pick(weightMode, weightMode, 5); am == 7 {
				add = genMap(r, 1, 0, avoid)[0]
				add.Weight = scaledAdditionWeight(r, factor)
			} else {
				add = genMap(r, 1, am, avoid)[0]
			}
			pos := r.Intn(n + 1)
			var l []sharding.Shard
			var to []int
			for j := 0; j <= n; j++ {
				if j == pos {
					l = append(l, add)
					to = append(to, -1)
				}
				if j < n {
					l = append(l, base[j])
					to = append(to, j)
				}
			}
			if s := newSelector(c, l, "addition"); s != nil {
				variants = append(variants, &variant{kind: vAddition, sel: s, list: l, toOrig: to, desc: fmt.Sprintf("addition of %s:%d at position %d", showKey(add.Key), add.Weight, pos)})
			}
		}

		baseGCD := weightsGCD(base)
		rescaledVariants := 0
		for _, v := range variants {
			if v.kind == vRemoval || v.kind == vAddition {
				v.rescaled = weightsGCD(v.list) != baseGCD
				if v.rescaled {
					rescaledVariants++
				}
			}
		}
		if rescaledVariants > 0 {
			w.Count("sel_maps_with_rescaled_variant", 1)
		}

		// Hashes.
		type hv struct {
			h     uint64
			class string
		}
		var hs []hv
		for _, h := range specialHashes {
			hs = append(hs, hv{h, "special"})
		}
		nRandom, nBoundary := 200, 96
		if n > 6 {
			nRandom, nBoundary = 120, 64
		}
		for i := 0; i < nRandom; i++ {
			hs = append(hs, hv{r.Uint64(), "random"})
		}
		for i := 0; i < nBoundary; i++ {
			t := r.Intn(n)
			x := boundaryXs[r.Intn(len(boundaryXs))]
			hs = append(hs, hv{mm.hashFor(t, x), "boundary"})
		}
		// Extremes for every shard: its mixed value 0 (lowest score) and
		// 2^64-1 (divisor 1, highest score).
		for t := 0; t < n; t++ {
			hs = append(hs, hv{mm.hashFor(t, 0), "boundary"}, hv{mm.hashFor(t, ^uint64(0)), "boundary"})
		}
		if tieCase {
			budget := 60000
			ties, tries := mm.findTies(r, budget, 6)
			w.Count("sel_tie_search_tries", int64(tries))
			if len(ties) > 0 {
				w.Count("sel_maps_with_ties", 1)
			}
			for _, h := range ties {
				hs = append(hs, hv{h, "searchedtie"})
			}
			// Near ties: the two best shards within a relative 2^-13. Exact
			// ties at the map's own scale only show the tie-break order;
			// near ties are where the removal / addition relations depend on
			// every survivor's score being the SAME number in the smaller /
			// larger map, to the last bit.
			near, ntries := mm.findNearTies(r, 60000, 48)
			w.Count("sel_neartie_search_tries", int64(ntries))
			if len(near) > 0 {
				w.Count("sel_maps_with_nearties", 1)
				if rescaledVariants > 0 {
					w.Count("sel_maps_with_nearties_and_rescaled_variant", 1)
				}
			}
			for _, h := range near {
				hs = append(hs, hv{h, "neartie"})
			}
		}

		violations := 0
		cnt := map[string]int64{}
		defer func() {
			for k, v := range cnt {
				w.Count(k, v)
			}
		}()
		hashClass := ""
		bad := func(sig string, h uint64, v *variant, format string, a ...any) {
			violations++
			c.Violation(sig, "%s\nhash=%#016x (%s)\nbase map=%s\nvariant: %s, list=%s\ngenerator's model of the base map at this hash: %s",
				fmt.Sprintf(format, a...), h, hashClass, showMap(base), v.desc, showMap(v.list), mm.describe(h))
		}
		for _, e := range hs {
			if violations >= 4 {
				break
			}
			h := e.h
			hashClass = e.class
			o := baseSel.GetShard(h)
			cnt["sel_evals"]++
			cnt["sel_"+e.class+"_hashes"]++
			if o < 0 || o >= n {
				bad("rendezvousShardSelector.GetShard:index-out-of-range", h, &variant{desc: "base", list: base}, "GetShard returned %d for a map of %d shards", o, n)
				continue
			}
			if o2 := baseSel.GetShard(h); o2 != o {
				bad("rendezvousShardSelector.GetShard:not-deterministic", h, &variant{desc: "base, second call", list: base}, "the same selector answered %d, then %d", o, o2)
			}
			if n >= 2 {
				w.Distinct("sel|" + strconv.FormatUint(fp, 16) + "|" + strconv.FormatUint(h, 16))
			}
			mw, tied, _ := mm.top(h)
			if mw == o {
				cnt["sel_model_winner_agrees"]++
			} else {
				cnt["sel_model_winner_disagrees"]++
			}
			if tied >= 2 {
				cnt["sel_tie_hashes"]++ // whatever its class
				if weightMode == 0 || weightMode == 6 {
					cnt["sel_tie_hashes_equal_weights"]++
				} else {
					cnt["sel_tie_hashes_mixed_weights"]++
				}
				if tied >= 3 {
					cnt["sel_tie_hashes_three_way"]++
				}
			}
			// closeCall: a hash that was searched for because the model puts
			// the two best shards of the base map on (almost) the same score.
			closeCall := e.class == "neartie" || e.class == "searchedtie"
			for _, v := range variants {
				j := v.sel.GetShard(h)
				if j < 0 || j >= len(v.list) {
					bad("rendezvousShardSelector.GetShard:index-out-of-range", h, v, "GetShard returned %d for a map of %d shards", j, len(v.list))
					continue
				}
				t := v.toOrig[j]
				switch v.kind {
				case vSame:
					cnt["sel_reconstruction_checks"]++
					if t != o {
						bad("rendezvousShardSelector.GetShard:not-deterministic", h, v, "two selectors built from the same list disagree: %d (%s) vs %d (%s)", o, showKey(base[o].Key), t, showKey(base[t].Key))
					}
				case vPerm:
					cnt["sel_perm_checks"]++
					if t != o {
						bad("rendezvousShardSelector.GetShard:depends-on-listing-order", h, v, "base listing routes to %s (base index %d), permuted listing routes to %s (returned index %d = base index %d)", showKey(base[o].Key), o, showKey(v.list[j].Key), j, t)
					}
				case vRemoval:
					// "Removing a shard re-routes only objects that were
					// assigned to it": an object of any other shard stays.
					if o == v.removed {
						cnt["sel_removal_owner_rerouted"]++
						break
					}
					cnt["sel_removal_checks"]++
					if closeCall {
						cnt["sel_closecall_removal_checks"]++
						if v.rescaled {
							cnt["sel_closecall_rescaled_removal_checks"]++
						}
					}
					if t != o {
						bad("rendezvousShardSelector.GetShard:removal-reroutes-object-of-other-shard", h, v, "hash was routed to %s (base index %d); after removing %s (base index %d) it is routed to %s (base index %d)", showKey(base[o].Key), o, showKey(base[v.removed].Key), v.removed, showKey(v.list[j].Key), t)
					}
				case vAddition:
					// "adding a shard re-routes objects only to the new
					// shard": the answer is the old one or the new shard.
					cnt["sel_addition_checks"]++
					if closeCall {
						cnt["sel_closecall_addition_checks"]++
						if v.rescaled {
							cnt["sel_closecall_rescaled_addition_checks"]++
						}
					}
					if t == -1 {
						cnt["sel_addition_moved_to_new"]++
					} else if t != o {
						bad("rendezvousShardSelector.GetShard:addition-reroutes-to-old-shard", h, v, "hash was routed to %s (base index %d); after the addition it is routed to the OLD shard %s (base index %d)", showKey(base[o].Key), o, showKey(v.list[j].Key), t)
					}
				}
			}
		}
		if c.Index == 0 {
			w.Sample(map[string]any{"engine": "selector", "map": showMap(base), "variants": len(variants), "hashes": len(hs), "first_hash": fmt.Sprintf("%#016x -> %s", hs[0].h, showKey(base[baseSel.GetShard(hs[0].h)%n].Key))})
		}
	})
}
