package main

import (
	"context"
	"fmt"
	"regexp"
	"strconv"
	"strings"

	"github.com/buildbarn/bb-storage/pkg/blobstore"
	"github.com/buildbarn/bb-storage/pkg/blobstore/buffer"
	bsconfig "github.com/buildbarn/bb-storage/pkg/blobstore/configuration"
	"github.com/buildbarn/bb-storage/pkg/blobstore/sharding"
	"github.com/buildbarn/bb-storage/pkg/digest"
	pb "github.com/buildbarn/bb-storage/pkg/proto/configuration/blobstore"
	statuspb "google.golang.org/genproto/googleapis/rpc/status"
	"google.golang.org/grpc/status"

	"verif/lib/run"
)

var leafRe = regexp.MustCompile(`leaf<<(\d+)>>`)

// leafOf extracts which error leaf produced err (-1: none).
func leafOf(err error) int {
	if err == nil {
		return -1
	}
	m := leafRe.FindStringSubmatch(status.Convert(err).Message())
	if m == nil {
		return -1
	}
	i, _ := strconv.Atoi(m[1])
	return i
}

// configEngine builds the sharding composite the way the daemon does, from a
// configuration message, over `error` leaves that identify themselves. The
// error that comes back reveals which leaf the composite addressed.
func configEngine(w *run.Worker) {
	ctx := context.Background()
	const site = "NewBlobAccessFromConfiguration(sharding)"
	w.Cases("config", w.N(320, 6000), func(c *run.Case) {
		r := c.Rng
		n := r.Pick(1, 2, 3, 3, 4, 5, 6, 9)
		var base []sharding.Shard
		for {
			base = genMap(r, n, r.Pick(0, 2, 3, 4, 5, 6), nil)
			ok := true
			for _, s := range base {
				ok = ok && !strings.Contains(s.Key, "leaf<<")
			}
			if ok {
				break
			}
		}
		fp := mapFingerprint(base)
		c.Desc("n=%d map=%s", n, showMap(base))

		build := func() blobstore.BlobAccess {
			shards := map[string]*pb.ShardingBlobAccessConfiguration_Shard{}
			for i, s := range base {
				shards[s.Key] = &pb.ShardingBlobAccessConfiguration_Shard{
					Weight: s.Weight,
					Backend: &pb.BlobAccessConfiguration{Backend: &pb.BlobAccessConfiguration_Error{Error: &statuspb.Status{
						Code:    int32(injectCodes[i%len(injectCodes)]),
						Message: fmt.Sprintf("leaf<<%d>> is down", i),
					}}},
				}
			}
			cfg := &pb.BlobAccessConfiguration{Backend: &pb.BlobAccessConfiguration_Sharding{Sharding: &pb.ShardingBlobAccessConfiguration{Shards: shards}}}
			info, err := bsconfig.NewBlobAccessFromConfiguration(nil, cfg, bsconfig.NewCASBlobAccessCreator(nil, 1<<20, nil))
			if err != nil {
				c.Violation(site+":rejects-valid-shard-map", "a sharding configuration with distinct keys and non-zero weights was rejected: %v", err)
				return nil
			}
			return info.BlobAccess
		}
		cfgA, cfgB := build(), build()
		if cfgA == nil || cfgB == nil {
			return
		}
		// Hand-built composite over the same (key, weight) set, listed in a
		// random order.
		perm := r.Perm(n)
		list, _ := permuted(base, perm)
		sel := newSelector(c, list, "hand-built")
		if sel == nil {
			return
		}
		stores := make([]*recStore, n)
		var backends []sharding.ShardBackend
		for j, i := range perm {
			stores[j] = newRecStore(base[i].Key, i)
			stores[j].getMode = 1
			backends = append(backends, sharding.ShardBackend{Backend: stores[j], Key: base[i].Key})
		}
		hand := sharding.NewShardingBlobAccess(backends, sel)

		var p [8]byte
		for k := 0; k < 24; k++ {
			switch k {
			case 0:
			case 1:
				for i := range p {
					p[i] = 0xff
				}
			default:
				copy(p[:], r.Bytes(8))
			}
			d := mkDigest(r, p, functions[r.Intn(len(functions))], instances[r.Intn(len(instances))], int64(r.Range(1, 50)))
			w.Distinct(fmt.Sprintf("cfg|%x|%s", fp, d))
			// Where does the hand-built composite send it?
			hand.Get(ctx, d).Discard()
			want := -1
			for _, s := range stores {
				if len(s.take()) > 0 {
					want = s.ordinal
				}
			}
			_, errA := cfgA.Get(ctx, d).ToByteSlice(1 << 20)
			_, errB := cfgB.Get(ctx, d).ToByteSlice(1 << 20)
			errPut := cfgA.Put(ctx, d, buffer.NewValidatedBufferFromByteSlice(make([]byte, d.GetSizeBytes())))
			_, errFM := cfgB.FindMissing(ctx, digest.NewSetBuilder(1).Add(d).Build())
			la, lb, lp, lf := leafOf(errA), leafOf(errB), leafOf(errPut), leafOf(errFM)
			c.Logf("%s: hand-built -> #%d; config Get -> #%d / #%d, Put -> #%d, FindMissing -> #%d (%v)", d, want, la, lb, lp, lf, errA)
			w.Count("cfg_routing_comparisons", 1)
			if la < 0 || la >= n || lb < 0 || lp < 0 || lf < 0 {
				c.Violation(site+":no-shard-addressed", "an operation on %s did not come back with a leaf's failure: Get=%v / %v Put=%v FindMissing=%v", d, errA, errB, errPut, errFM)
				continue
			}
			if la != lb {
				c.Violation(site+":routing-differs-between-constructions", "two constructions from the same configuration route %s to %s and %s", d, showKey(base[la].Key), showKey(base[lb].Key))
			}
			if lp != la || lf != lb {
				c.Violation(site+":operations-address-different-shards", "%s: Get -> %s, Put -> #%d, FindMissing -> #%d", d, showKey(base[la].Key), lp, lf)
			}
			if want >= 0 && la != want {
				c.Violation(site+":routes-differently-from-same-key-weight-set", "%s is routed to %s by the configured composite but to %s by a composite built by hand from the same (key, weight) pairs", d, showKey(base[la].Key), showKey(base[want].Key))
			}
			for _, e := range []error{errA, errB, errPut, errFM} {
				w.Count("cfg_errors_checked", 1)
				if !strings.Contains(status.Convert(e).Message(), base[leafOf(e)%n].Key) {
					c.Violation(site+":error-without-shard-key", "the leaf configured under key %s failed, but the error %q does not carry that key", showKey(base[leafOf(e)%n].Key), status.Convert(e).Message())
				}
				if got, want := status.Code(e), injectCodes[leafOf(e)%len(injectCodes)]; got != want {
					w.Count("observed_error_code_changed", 1) // beyond the statement: observed only
					_, _ = got, want
				}
			}
		}
		if c.Index == 0 {
			w.Sample(map[string]any{"engine": "config", "map": showMap(base)})
		}
	})
}
