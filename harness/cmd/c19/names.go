package main

// Reference functions on instance names, written on component lists and
// deliberately sharing no code with pkg/digest: they are the oracle's side of
// "longest component-wise prefix", "prefix replaced by the configured one" and
// "ancestor names".

import (
	"sort"
	"strings"

	remoteexecution "github.com/bazelbuild/remote-apis/build/bazel/remote/execution/v2"
	"github.com/buildbarn/bb-storage/pkg/digest"

	"verif/lib/gen"
)

func split(n string) []string {
	if n == "" {
		return nil
	}
	return strings.Split(n, "/")
}

func join(c []string) string { return strings.Join(c, "/") }

// isPrefix: p is a component-wise prefix of n (every name is a prefix of
// itself, "" is a prefix of everything).
func isPrefix(p, n string) bool {
	pc, nc := split(p), split(n)
	if len(pc) > len(nc) {
		return false
	}
	for i := range pc {
		if pc[i] != nc[i] {
			return false
		}
	}
	return true
}

// longestPrefix returns the registered name with the most components that is a
// component-wise prefix of n.
func longestPrefix[T any](reg map[string]T, n string) (string, bool) {
	nc := split(n)
	for k := len(nc); k >= 0; k-- {
		p := join(nc[:k])
		if _, ok := reg[p]; ok {
			return p, true
		}
	}
	return "", false
}

// rewrite replaces the component prefix oldP of n by newP.
func rewrite(n, oldP, newP string) string {
	rest := split(n)[len(split(oldP)):]
	return join(append(append([]string(nil), split(newP)...), rest...))
}

// ancestors lists n and all its ancestor names, most specific first, ending
// with "".
func ancestors(n string) []string {
	nc := split(n)
	var out []string
	for k := len(nc); k >= 0; k-- {
		out = append(out, join(nc[:k]))
	}
	return out
}

func mustName(n string) digest.InstanceName {
	in, err := digest.NewInstanceName(n)
	if err != nil {
		panic("harness: invalid instance name " + n + ": " + err.Error())
	}
	return in
}

// withName rebuilds d under another instance name from its parts (function,
// hash, size), without going through the patcher.
func withName(d digest.Digest, n string) digest.Digest {
	return digest.MustNewDigest(n, d.GetDigestFunction().GetEnumValue(), d.GetHashString(), d.GetSizeBytes())
}

// Components used in generated names. "ab"/"bc"/"abc" make string prefixes
// that are not component prefixes; "x-1" and "12" exercise the digest string
// layout (function-hash-size-instance) the patcher slices.
var genComponents = []string{"a", "b", "ab", "bc", "c", "abc", "x-1", "12", "y"}

func randName(r *gen.Rng, maxDepth int) string {
	d := r.Intn(maxDepth + 1)
	var c []string
	for i := 0; i < d; i++ {
		c = append(c, genComponents[r.Intn(len(genComponents))])
	}
	return join(c)
}

// smallName draws from a narrow alphabet so that collisions, nesting and
// string-but-not-component prefixes are frequent.
func smallName(r *gen.Rng, maxDepth int) string {
	al := []string{"a", "b", "ab"}
	d := r.Intn(maxDepth + 1)
	var c []string
	for i := 0; i < d; i++ {
		c = append(c, al[r.Intn(len(al))])
	}
	return join(c)
}

// mangle turns n into a name of which n is a string prefix but not a component
// prefix (or, for "", any one-component name).
func mangle(r *gen.Rng, n string) string {
	suffix := []string{"b", "c", "x", "-1", "0"}[r.Intn(5)]
	if n == "" {
		return "q" + suffix
	}
	return n + suffix
}

var digestFunctions = []remoteexecution.DigestFunction_Value{
	remoteexecution.DigestFunction_MD5,
	remoteexecution.DigestFunction_SHA1,
	remoteexecution.DigestFunction_SHA256,
	remoteexecution.DigestFunction_SHA384,
	remoteexecution.DigestFunction_SHA512,
	remoteexecution.DigestFunction_SHA256TREE,
}

func sortedKeys[T any](m map[string]T) []string {
	k := make([]string, 0, len(m))
	for x := range m {
		k = append(k, x)
	}
	sort.Strings(k)
	return k
}

func digestStrings(ds []digest.Digest) []string {
	out := make([]string, 0, len(ds))
	for _, d := range ds {
		out = append(out, d.String())
	}
	sort.Strings(out)
	return out
}

func sameStrings(a, b []string) bool {
	if len(a) != len(b) {
		return false
	}
	for i := range a {
		if a[i] != b[i] {
			return false
		}
	}
	return true
}
