package main

// A "world" is one generated configuration (registered prefixes, rewrites,
// backends, optional hierarchical decorators) built twice: as a reference
// (plain maps + the functions of names.go) and as the real object graph of
// bb-storage over recording model backends. The op* methods run one operation
// through the real graph and compare results and backend call logs.

import (
	"bytes"
	"context"
	"fmt"
	"sort"
	"strings"

	"github.com/buildbarn/bb-storage/pkg/blobstore"
	"github.com/buildbarn/bb-storage/pkg/blobstore/buffer"
	"github.com/buildbarn/bb-storage/pkg/blobstore/configuration"
	"github.com/buildbarn/bb-storage/pkg/blobstore/slicing"
	"github.com/buildbarn/bb-storage/pkg/digest"
	"github.com/buildbarn/bb-storage/pkg/program"
	pb "github.com/buildbarn/bb-storage/pkg/proto/configuration/blobstore"
	grpcpb "github.com/buildbarn/bb-storage/pkg/proto/configuration/grpc"
	"google.golang.org/grpc/codes"
	"google.golang.org/grpc/status"

	"verif/lib/model"
	"verif/lib/run"
)

const (
	siteDemux = "demultiplexingBlobAccess"
	siteHier  = "hierarchicalInstanceNamesBlobAccess"
)

type entry struct {
	prefix string // registered instance name prefix
	add    string // configured replacement prefix
	store  int    // index of the model backend
	hier   bool   // backend wrapped in the hierarchical-instance-names decorator
}

func (e *entry) String() string {
	h := ""
	if e.hier {
		h = "^"
	}
	return fmt.Sprintf("%q->%ss%d:%q", e.prefix, h, e.store, e.add)
}

type backendInfo struct {
	ba      blobstore.BlobAccess
	name    string
	patcher digest.InstanceNamePatcher
}

type world struct {
	c *run.Case
	w *run.Worker

	entries map[string]*entry
	stores  []*model.Store
	ba      blobstore.BlobAccess
	noDemux bool // ba is the hierarchical decorator directly over stores[0]
	built   string

	// direct mode only: the real trie consulted by the getter callback.
	trie     *digest.InstanceNameTrie
	backends []backendInfo

	// Fault plan for the current operation: calls number faultFrom ..
	// faultFrom+faultCount-1 (counted per operation and store) on store
	// faultStore fail with faultCode.
	faultStore int
	faultFrom  int
	faultCount int
	faultCode  codes.Code
	opCalls    []int
	faultFired int
}

func newWorld(c *run.Case, w *run.Worker, nStores int) *world {
	wd := &world{c: c, w: w, entries: map[string]*entry{}, faultStore: -1}
	for i := 0; i < nStores; i++ {
		idx := i
		st := model.NewStore(fmt.Sprintf("s%d", i), digest.KeyWithInstance)
		st.Unvalidated = true // AC-style: values differ per instance name
		st.Before = func(call *model.Call) error {
			n := wd.opCalls[idx]
			wd.opCalls[idx]++
			if wd.faultStore == idx && n >= wd.faultFrom && n < wd.faultFrom+wd.faultCount {
				wd.faultFired++
				return status.Errorf(wd.faultCode, "injected failure of %s call %d", st.Name, n)
			}
			return nil
		}
		wd.stores = append(wd.stores, st)
	}
	wd.opCalls = make([]int, nStores)
	return wd
}

func (wd *world) describe() string {
	var parts []string
	for _, k := range sortedKeys(wd.entries) {
		parts = append(parts, wd.entries[k].String())
	}
	return wd.built + "{" + strings.Join(parts, " ") + "}"
}

// ---------------------------------------------------------------------------
// Building the real object graph.

// modelCreator is the real ICAS BlobAccessCreator, except that a 'grpc'
// backend with address "model:<i>" resolves to the i-th recording backend.
// Everything else (with_labels, label, demultiplexing, hierarchical_instance_names,
// the metrics decorators) is constructed by bb-storage's own configuration code.
type modelCreator struct {
	configuration.BlobAccessCreator
	stores []*model.Store
}

func (mc *modelCreator) NewCustomBlobAccess(tg program.Group, cfg *pb.BlobAccessConfiguration, nested configuration.NestedBlobAccessCreator) (configuration.BlobAccessInfo, string, error) {
	if g, ok := cfg.Backend.(*pb.BlobAccessConfiguration_Grpc); ok {
		var i int
		if _, err := fmt.Sscanf(g.Grpc.GetClient().GetAddress(), "model:%d", &i); err == nil && i >= 0 && i < len(mc.stores) {
			return configuration.BlobAccessInfo{BlobAccess: mc.stores[i], DigestKeyFormat: digest.KeyWithInstance}, "grpc", nil
		}
	}
	return mc.BlobAccessCreator.NewCustomBlobAccess(tg, cfg, nested)
}

func labelCfg(i int) *pb.BlobAccessConfiguration {
	return &pb.BlobAccessConfiguration{Backend: &pb.BlobAccessConfiguration_Label{Label: fmt.Sprintf("s%d", i)}}
}

func hierCfg(inner *pb.BlobAccessConfiguration) *pb.BlobAccessConfiguration {
	return &pb.BlobAccessConfiguration{Backend: &pb.BlobAccessConfiguration_HierarchicalInstanceNames{HierarchicalInstanceNames: inner}}
}

// buildFromConfiguration builds the graph with
// configuration.NewBlobAccessFromConfiguration (the production path,
// new_blob_access.go): with_labels{ s<i>: model backend } around either the
// demultiplexing backend or (noDemux) hierarchical_instance_names{label s0}.
func (wd *world) buildFromConfiguration() error {
	labels := map[string]*pb.BlobAccessConfiguration{}
	for i := range wd.stores {
		labels[fmt.Sprintf("s%d", i)] = &pb.BlobAccessConfiguration{Backend: &pb.BlobAccessConfiguration_Grpc{Grpc: &pb.GrpcBlobAccessConfiguration{Client: &grpcpb.ClientConfiguration{Address: fmt.Sprintf("model:%d", i)}}}}
	}
	var inner *pb.BlobAccessConfiguration
	if wd.noDemux {
		inner = hierCfg(labelCfg(0))
	} else {
		prefixes := map[string]*pb.DemultiplexedBlobAccessConfiguration{}
		for p, e := range wd.entries {
			b := labelCfg(e.store)
			if e.hier {
				b = hierCfg(b)
			}
			prefixes[p] = &pb.DemultiplexedBlobAccessConfiguration{Backend: b, AddInstanceNamePrefix: e.add}
		}
		inner = &pb.BlobAccessConfiguration{Backend: &pb.BlobAccessConfiguration_Demultiplexing{Demultiplexing: &pb.DemultiplexingBlobAccessConfiguration{InstanceNamePrefixes: prefixes}}}
	}
	root := &pb.BlobAccessConfiguration{Backend: &pb.BlobAccessConfiguration_WithLabels{WithLabels: &pb.WithLabelsBlobAccessConfiguration{Labels: labels, Backend: inner}}}
	info, err := configuration.NewBlobAccessFromConfiguration(nil, root, &modelCreator{BlobAccessCreator: configuration.NewICASBlobAccessCreator(nil, 1<<20), stores: wd.stores})
	if err != nil {
		return err
	}
	wd.ba = info.BlobAccess
	wd.built = "config"
	return nil
}

func (wd *world) backendFor(e *entry) backendInfo {
	var b blobstore.BlobAccess = wd.stores[e.store]
	if e.hier {
		b = blobstore.NewHierarchicalInstanceNamesBlobAccess(b)
	}
	return backendInfo{ba: b, name: e.prefix, patcher: digest.NewInstanceNamePatcher(mustName(e.prefix), mustName(e.add))}
}

// buildDirect builds the graph from the exported constructors, with a getter
// that consults a real InstanceNameTrie which the case keeps mutating
// (insertions, replacements, removals) between operations.
func (wd *world) buildDirect() {
	wd.built = "direct"
	if wd.noDemux {
		wd.ba = blobstore.NewHierarchicalInstanceNamesBlobAccess(wd.stores[0])
		return
	}
	wd.trie = digest.NewInstanceNameTrie()
	for _, k := range sortedKeys(wd.entries) {
		wd.trie.Set(mustName(k), len(wd.backends))
		wd.backends = append(wd.backends, wd.backendFor(wd.entries[k]))
	}
	wd.ba = blobstore.NewDemultiplexingBlobAccess(func(i digest.InstanceName) (blobstore.BlobAccess, string, digest.InstanceNamePatcher, error) {
		idx := wd.trie.GetLongestPrefix(i)
		if idx < 0 {
			return nil, "", digest.NoopInstanceNamePatcher, status.Errorf(codes.InvalidArgument, "Unknown instance name: %#v", i.String())
		}
		b := wd.backends[idx]
		return b.ba, b.name, b.patcher, nil
	})
}

// register adds or replaces a prefix in a direct world.
func (wd *world) register(e *entry) {
	wd.entries[e.prefix] = e
	wd.trie.Set(mustName(e.prefix), len(wd.backends))
	wd.backends = append(wd.backends, wd.backendFor(e))
}

// unregister removes a registered prefix from a direct world.
func (wd *world) unregister(p string) {
	delete(wd.entries, p)
	empty := wd.trie.Remove(mustName(p))
	if empty != (len(wd.entries) == 0) {
		wd.c.Violation("InstanceNameTrie.Remove:emptiness-result-wrong", "Remove(%q) returned %v with %d prefixes left", p, empty, len(wd.entries))
	}
}

// ---------------------------------------------------------------------------
// Reference.

type routed struct {
	e      *entry
	levels []digest.Digest // names the object may be served from, most specific first
}

func (rt *routed) patched() digest.Digest { return rt.levels[0] }

// route is the reference routing of one digest: longest component-wise prefix,
// prefix replaced, and (behind a hierarchical decorator) the ancestor chain.
func (wd *world) route(d digest.Digest) *routed {
	n := d.GetInstanceName().String()
	var e *entry
	if wd.noDemux {
		e = &entry{hier: true}
	} else {
		p, ok := longestPrefix(wd.entries, n)
		if !ok {
			return nil
		}
		e = wd.entries[p]
	}
	pn := rewrite(n, e.prefix, e.add)
	rt := &routed{e: e}
	if e.hier {
		for _, a := range ancestors(pn) {
			rt.levels = append(rt.levels, withName(d, a))
		}
	} else {
		rt.levels = []digest.Digest{withName(d, pn)}
	}
	return rt
}

// lookup returns the level index and bytes of the most specific level that
// holds the object, or -1.
func (wd *world) lookup(rt *routed) (int, []byte) {
	for i, l := range rt.levels {
		if data, ok := wd.stores[rt.e.store].Peek(l); ok {
			return i, data
		}
	}
	return -1, nil
}

// countRoute records which routing situations an operation exercised.
func (wd *world) countRoute(d digest.Digest, rt *routed) {
	w := wd.w
	n := d.GetInstanceName().String()
	if rt == nil {
		w.Count("unknown_name_ops", 1)
		for p := range wd.entries {
			if strings.HasPrefix(n, p) {
				w.Count("unknown_name_with_string_prefix_registered", 1)
				break
			}
		}
		return
	}
	if wd.noDemux {
		return
	}
	e := rt.e
	if e.prefix != e.add {
		w.Count("rewritten_ops", 1)
		if e.add == "" {
			w.Count("rewrite_to_empty_ops", 1)
		}
		if e.prefix == "" {
			w.Count("rewrite_from_empty_ops", 1)
		}
		if len(split(e.add)) != len(split(e.prefix)) {
			w.Count("rewrite_changes_depth_ops", 1)
		}
	}
	if n == e.prefix {
		w.Count("name_equals_prefix_ops", 1)
	}
	for p := range wd.entries {
		if p == e.prefix {
			continue
		}
		if isPrefix(p, n) {
			w.Count("nested_prefix_routes", 1) // a shorter registered prefix matched as well
		} else if len(p) > len(e.prefix) && strings.HasPrefix(n, p) {
			w.Count("string_not_component_prefix_routes", 1) // a longer registered string prefix must NOT win
		}
	}
}

// ---------------------------------------------------------------------------
// Operations.

func (wd *world) beginOp() {
	for i, st := range wd.stores {
		st.ResetCalls()
		wd.opCalls[i] = 0
	}
	wd.faultFired = 0
}

// checkCalls verifies where an operation on one digest was delivered: only the
// routed backend, first under the patched name, and only under names of the
// (patched) ancestor chain. Returns false if a routing violation was reported.
func (wd *world) checkCalls(op string, d digest.Digest, rt *routed, extra func(call model.Call, lvl int) string) bool {
	ok := true
	for i, st := range wd.stores {
		calls := st.Calls()
		if i != rt.e.store {
			if len(calls) > 0 {
				wd.c.Violation(siteDemux+"."+op+":delivered-to-wrong-backend", "%s(%s) routed to %v but backend s%d received %v", op, d, rt.e, i, calls)
				ok = false
			}
			continue
		}
		if len(calls) == 0 {
			wd.c.Violation(siteDemux+"."+op+":not-delivered", "%s(%s) routed to %v but backend s%d received nothing", op, d, rt.e, i)
			return false
		}
		for j, call := range calls {
			lvl := -1
			for k, l := range rt.levels {
				if l.String() == call.Digests[0] {
					lvl = k
				}
			}
			if j == 0 && lvl != 0 {
				wd.c.Violation(siteDemux+"."+op+":wrong-patched-instance-name", "%s(%s) via %v: backend received %v first, want %s", op, d, rt.e, call.Digests, rt.patched())
				return false
			}
			if lvl < 0 {
				wd.c.Violation(siteHier+"."+op+":queried-non-ancestor-name", "%s(%s) via %v: backend received %v, which is not the name or an ancestor of %s", op, d, rt.e, call.Digests, rt.patched())
				return false
			}
			if call.Op != op {
				wd.c.Violation(siteDemux+"."+op+":wrong-operation-delivered", "%s(%s) arrived as %s", op, d, call.Op)
				return false
			}
			if extra != nil {
				if msg := extra(call, lvl); msg != "" {
					sig := siteDemux + "." + op + ":wrong-patched-instance-name"
					if lvl > 0 { // the first call was right, a fallback call is not
						sig = siteHier + "." + op + ":fallback-call-with-inconsistent-names"
					}
					wd.c.Violation(sig, "%s(%s) via %v: %s", op, d, rt.e, msg)
					return false
				}
			}
		}
		if !rt.e.hier && len(calls) != 1 {
			wd.c.Violation(siteDemux+"."+op+":backend-call-count", "%s(%s) made %d backend calls", op, d, len(calls))
			ok = false
		}
	}
	return ok
}

func (wd *world) anyCalls() string {
	for _, st := range wd.stores {
		if calls := st.Calls(); len(calls) > 0 {
			return fmt.Sprintf("%v", calls)
		}
	}
	return ""
}

// checkRejected: unknown names are rejected. "Rejected" is read as: an error
// that is not NOT_FOUND (NOT_FOUND is the normal answer of a routed lookup and
// would make an unknown name indistinguishable from an absent object), and no
// backend sees the request.
func (wd *world) checkRejected(op string, d string, err error) {
	wd.w.Count("unknown_name_rejections", 1)
	if err == nil {
		wd.c.Violation(siteDemux+"."+op+":unknown-instance-name-not-rejected", "%s(%s) succeeded although no registered prefix matches; config %s", op, d, wd.describe())
	} else if status.Code(err) == codes.NotFound {
		wd.c.Violation(siteDemux+"."+op+":unknown-instance-name-reported-as-not-found", "%s(%s) -> %v", op, d, err)
	}
	if op != "FindMissing" {
		if calls := wd.anyCalls(); calls != "" {
			wd.c.Violation(siteDemux+"."+op+":unknown-instance-name-reached-backend", "%s(%s): backends received %s", op, d, calls)
		}
	}
}

// valueSite: the layer a wrong value is attributed to.
func valueSite(rt *routed) string {
	if rt.e.hier {
		return siteHier
	}
	return siteDemux
}

// checkRead compares the result of Get / GetFromComposite with the reference.
// want maps a level index to the bytes expected when that level answers.
func (wd *world) checkRead(op string, d digest.Digest, rt *routed, data []byte, err error, want func(lvl int, stored []byte) []byte) {
	c, w := wd.c, wd.w
	site := valueSite(rt)
	lvl, stored := wd.lookup(rt)
	if wd.faultFired > 0 {
		// A backend call failed with a non-NOT_FOUND error. The statement
		// still forbids returning anything but the most specific ancestor's
		// object; an error is fine.
		w.Count("reads_with_backend_failure", 1)
		if err == nil && (lvl < 0 || !bytes.Equal(data, want(lvl, stored))) {
			c.Violation(site+"."+op+":wrong-object-after-backend-error", "%s(%s) returned %q after a failed backend call; most specific holder is level %d", op, d, data, lvl)
		}
		if status.Code(err) == codes.NotFound && lvl >= 0 {
			c.Violation(site+"."+op+":backend-error-reported-as-not-found", "%s(%s) -> %v, but level %d holds the object", op, d, err, lvl)
		}
		return
	}
	if lvl < 0 {
		w.Count("reads_absent_everywhere", 1)
		if err == nil {
			c.Violation(site+"."+op+":object-returned-although-absent", "%s(%s) returned %q although no level of %v holds it", op, d, data, digestStrings(rt.levels))
		} else if status.Code(err) != codes.NotFound {
			c.Violation(site+"."+op+":unexpected-error", "%s(%s) -> %v; want NOT_FOUND", op, d, err)
		}
		return
	}
	if lvl > 0 {
		w.Count("reads_served_by_ancestor", 1)
	} else {
		w.Count("reads_served_by_exact_name", 1)
	}
	holders := 0
	for _, l := range rt.levels {
		if wd.stores[rt.e.store].Has(l) {
			holders++
		}
	}
	if holders > 1 {
		w.Count("reads_with_several_holders", 1)
	}
	if err != nil {
		if status.Code(err) == codes.NotFound {
			c.Violation(site+"."+op+":present-object-not-found", "%s(%s) -> NOT_FOUND, but %s holds it (level %d)", op, d, rt.levels[lvl], lvl)
		} else {
			c.Violation(site+"."+op+":unexpected-error", "%s(%s) -> %v", op, d, err)
		}
		return
	}
	exp := want(lvl, stored)
	if bytes.Equal(data, exp) {
		return
	}
	for k := range rt.levels {
		if k == lvl {
			continue
		}
		if st, ok := wd.stores[rt.e.store].Peek(rt.levels[k]); ok && bytes.Equal(data, want(k, st)) {
			c.Violation(site+"."+op+":not-most-specific-ancestor", "%s(%s) returned the object of %s (level %d); the most specific holder is %s (level %d)", op, d, rt.levels[k], k, rt.levels[lvl], lvl)
			return
		}
	}
	c.Violation(site+"."+op+":wrong-bytes", "%s(%s) returned %q, want %q", op, d, data, exp)
}

func (wd *world) opGet(ctx context.Context, d digest.Digest) {
	rt := wd.route(d)
	wd.countRoute(d, rt)
	wd.beginOp()
	data, err := wd.ba.Get(ctx, d).ToByteSlice(1 << 20)
	wd.c.Logf("Get(%s) -> %q, %v", d, data, err)
	wd.w.Count("get_ops", 1)
	if rt == nil {
		wd.checkRejected("Get", d.String(), err)
		return
	}
	if !wd.checkCalls("Get", d, rt, nil) {
		return
	}
	wd.checkRead("Get", d, rt, data, err, func(lvl int, stored []byte) []byte { return stored })
}

// echoSlicer ignores the parent's bytes and answers with the child digest it
// was handed, so that the name under which the composite lookup was finally
// served is visible in the result.
type echoSlicer struct{}

func (echoSlicer) Slice(b buffer.Buffer, child digest.Digest) (buffer.Buffer, []slicing.BlobSlice) {
	b.Discard()
	return buffer.NewValidatedBufferFromByteSlice([]byte("slice-of:" + child.String())), nil
}

// opGetFromComposite: parent and child carry the same instance name (one REv2
// request carries one instance name).
func (wd *world) opGetFromComposite(ctx context.Context, parent, child digest.Digest) {
	rt := wd.route(parent)
	wd.countRoute(parent, rt)
	wd.beginOp()
	data, err := wd.ba.GetFromComposite(ctx, parent, child, echoSlicer{}).ToByteSlice(1 << 20)
	wd.c.Logf("GetFromComposite(%s, %s) -> %q, %v", parent, child, data, err)
	wd.w.Count("get_from_composite_ops", 1)
	if rt == nil {
		wd.checkRejected("GetFromComposite", parent.String(), err)
		return
	}
	crt := wd.route(child)
	if !wd.checkCalls("GetFromComposite", parent, rt, func(call model.Call, lvl int) string {
		if call.Digests[1] != crt.levels[lvl].String() {
			return fmt.Sprintf("child digest arrived as %s, want %s", call.Digests[1], crt.levels[lvl])
		}
		return ""
	}) {
		return
	}
	wd.checkRead("GetFromComposite", parent, rt, data, err, func(lvl int, stored []byte) []byte {
		return []byte("slice-of:" + crt.levels[lvl].String())
	})
}

func (wd *world) opPut(ctx context.Context, d digest.Digest, data []byte, chunks []int) {
	rt := wd.route(d)
	wd.countRoute(d, rt)
	wd.beginOp()
	b, tr := model.NewTrackedCASBuffer(d, model.SourceSpec{Data: data, Chunks: chunks}, buffer.UserProvided)
	err := wd.ba.Put(ctx, d, b)
	wd.c.Logf("Put(%s) -> %v (source closed %d times)", d, err, tr.Closes())
	wd.w.Count("put_ops", 1)
	if msg := tr.CheckReleasedOnce(); msg != "" {
		site := siteDemux
		if wd.noDemux {
			site = siteHier
		}
		cls := "upload-buffer-release-count"
		if rt == nil {
			cls = "rejected-upload-buffer-not-released"
		}
		wd.c.Violation(site+".Put:"+cls, "Put(%s) -> %v: %s", d, err, msg)
	}
	if rt == nil {
		wd.checkRejected("Put", d.String(), err)
		return
	}
	// A Put is never spread over ancestors: it is one call under the patched name.
	plain := &routed{e: &entry{prefix: rt.e.prefix, add: rt.e.add, store: rt.e.store}, levels: rt.levels[:1]}
	if !wd.checkCalls("Put", d, plain, nil) {
		return
	}
	if wd.faultFired > 0 {
		if err == nil {
			wd.c.Violation(siteDemux+".Put:backend-error-swallowed", "Put(%s) succeeded although the backend call failed", d)
		}
		return
	}
	if err != nil {
		wd.c.Violation(siteDemux+".Put:unexpected-error", "Put(%s) -> %v", d, err)
		return
	}
	if got, ok := wd.stores[rt.e.store].Peek(rt.patched()); !ok || !bytes.Equal(got, data) {
		wd.c.Violation(siteDemux+".Put:not-stored-under-patched-name", "Put(%s) succeeded but %s holds %q (present=%v)", d, rt.patched(), got, ok)
	}
}

func (wd *world) opGetCapabilities(ctx context.Context, name string) {
	var rt *routed
	if p, ok := longestPrefix(wd.entries, name); ok {
		rt = &routed{e: wd.entries[p]}
	}
	wd.beginOp()
	_, err := wd.ba.GetCapabilities(ctx, mustName(name))
	wd.c.Logf("GetCapabilities(%q) -> %v", name, err)
	wd.w.Count("get_capabilities_ops", 1)
	if rt == nil {
		wd.w.Count("unknown_name_ops", 1)
		wd.checkRejected("GetCapabilities", name, err)
		return
	}
	want := rewrite(name, rt.e.prefix, rt.e.add)
	for i, st := range wd.stores {
		calls := st.Calls()
		switch {
		case i != rt.e.store && len(calls) > 0:
			wd.c.Violation(siteDemux+".GetCapabilities:delivered-to-wrong-backend", "GetCapabilities(%q) routed to %v but s%d received %v", name, rt.e, i, calls)
		case i == rt.e.store && len(calls) != 1:
			wd.c.Violation(siteDemux+".GetCapabilities:backend-call-count", "GetCapabilities(%q) made %d calls on s%d", name, len(calls), i)
		case i == rt.e.store && calls[0].Digests[0] != want:
			wd.c.Violation(siteDemux+".GetCapabilities:wrong-patched-instance-name", "GetCapabilities(%q) via %v arrived as %q, want %q", name, rt.e, calls[0].Digests[0], want)
		}
	}
	if wd.faultFired == 0 && err != nil {
		wd.c.Violation(siteDemux+".GetCapabilities:unexpected-error", "GetCapabilities(%q) -> %v", name, err)
	}
}

// opFindMissing runs FindMissing over digests of several instance names.
func (wd *world) opFindMissing(ctx context.Context, ds []digest.Digest) {
	c, w := wd.c, wd.w
	sb := digest.NewSetBuilder(0)
	for _, d := range ds {
		sb.Add(d)
	}
	set := sb.Build()
	items := set.Items()

	type partition struct {
		e       *entry
		patched []string
	}
	routes := map[string]*routed{}
	parts := map[string]*partition{}
	allowed := make([]map[string]bool, len(wd.stores))
	for i := range allowed {
		allowed[i] = map[string]bool{}
	}
	names := map[string]bool{}
	unknown := ""
	for _, d := range items {
		names[d.GetInstanceName().String()] = true
		rt := wd.route(d)
		wd.countRoute(d, rt)
		if rt == nil {
			unknown = d.String()
			continue
		}
		routes[d.String()] = rt
		p := parts[rt.e.prefix]
		if p == nil {
			p = &partition{e: rt.e}
			parts[rt.e.prefix] = p
		}
		p.patched = append(p.patched, rt.patched().String())
		for _, l := range rt.levels {
			allowed[rt.e.store][l.String()] = true
		}
	}

	wd.beginOp()
	missing, err := wd.ba.FindMissing(ctx, set)
	c.Logf("FindMissing(%v) -> %v, %v", digestStrings(items), digestStrings(missing.Items()), err)
	w.Count("find_missing_ops", 1)
	if len(names) > 1 {
		w.Count("find_missing_multi_name", 1)
	}
	if len(parts) > 1 {
		w.Count("find_missing_multi_partition", 1)
		st := map[int]bool{}
		for _, p := range parts {
			st[p.e.store] = true
		}
		if len(st) > 1 {
			w.Count("find_missing_multi_backend", 1)
		}
		if len(st) < len(parts) {
			w.Count("find_missing_partitions_sharing_backend", 1)
		}
	}

	if unknown != "" {
		if len(items) > 1 {
			w.Count("find_missing_unknown_among_known", 1)
		}
		wd.checkRejected("FindMissing", unknown, err)
		if missing.Length() != 0 && err != nil {
			c.Violation(siteDemux+".FindMissing:result-with-error", "non-empty result %v together with %v", digestStrings(missing.Items()), err)
		}
		return
	}

	// Delivery: every digest a backend sees is the patched form (or, behind a
	// hierarchical decorator, an ancestor form) of a requested digest routed
	// to that backend; every partition's patched set arrives as one call.
	routingOK := true
	for i, st := range wd.stores {
		var calls []model.Call
		for _, call := range st.Calls() {
			if len(call.Digests) > 0 { // a forwarded empty request says nothing about routing
				calls = append(calls, call)
			}
		}
		hierHere := false
		nparts := 0
		for _, p := range parts {
			if p.e.store == i {
				nparts++
				hierHere = hierHere || p.e.hier
			}
		}
		if nparts == 0 && len(calls) > 0 {
			c.Violation(siteDemux+".FindMissing:delivered-to-wrong-backend", "no requested digest routes to s%d, but it received %v", i, calls)
			routingOK = false
			continue
		}
		for _, call := range calls {
			if call.Op != "FindMissing" {
				c.Violation(siteDemux+".FindMissing:wrong-operation-delivered", "s%d received %s", i, call.Op)
				routingOK = false
			}
			for _, ds := range call.Digests {
				if !allowed[i][ds] {
					sig := siteDemux + ".FindMissing:wrong-patched-instance-name"
					if wd.noDemux {
						sig = siteHier + ".FindMissing:queried-non-ancestor-name"
					}
					c.Violation(sig, "s%d was asked about %s, which is neither the patched form nor an ancestor form of a requested digest routed there (allowed: %v)", i, ds, sortedKeys(allowed[i]))
					routingOK = false
				}
			}
		}
		if wd.faultFired == 0 || wd.faultStore != i {
			used := make([]bool, len(calls))
			for _, p := range parts {
				if p.e.store != i {
					continue
				}
				sort.Strings(p.patched)
				found := false
				for j, call := range calls {
					if used[j] {
						continue
					}
					got := append([]string(nil), call.Digests...)
					sort.Strings(got)
					if sameStrings(got, p.patched) {
						used[j], found = true, true
						break
					}
				}
				if !found && wd.faultFired == 0 {
					sig := siteDemux + ".FindMissing:partition-not-delivered-as-one-patched-set"
					if wd.noDemux {
						sig = siteHier + ".FindMissing:request-not-forwarded"
					}
					c.Violation(sig, "partition %v: expected one call with %v on s%d, calls were %v", p.e, p.patched, i, calls)
					routingOK = false
				}
			}
			if !hierHere && wd.faultFired == 0 && len(calls) != nparts {
				c.Violation(siteDemux+".FindMissing:backend-call-count", "s%d serves %d partitions but received %d calls: %v", i, nparts, len(calls), calls)
				routingOK = false
			}
		}
	}
	if !routingOK {
		return
	}

	if wd.faultFired > 0 {
		// A backend reported a failure: there is no "union of what the
		// backends report" to return, so success is a fabricated answer.
		w.Count("find_missing_with_backend_failure", 1)
		if err == nil {
			site := siteDemux
			if wd.noDemux {
				site = siteHier
			}
			c.Violation(site+".FindMissing:backend-error-swallowed", "FindMissing succeeded with %v although %d backend calls failed", digestStrings(missing.Items()), wd.faultFired)
		}
		return
	}
	if err != nil {
		site := siteDemux
		if wd.noDemux {
			site = siteHier
		}
		c.Violation(site+".FindMissing:unexpected-error", "FindMissing -> %v", err)
		return
	}

	got := map[string]bool{}
	for _, m := range missing.Items() {
		got[m.String()] = true
		if _, ok := routes[m.String()]; !ok {
			sig := siteDemux + ".FindMissing:result-not-in-callers-names"
			if wd.noDemux {
				sig = siteHier + ".FindMissing:result-not-subset-of-request"
			}
			c.Violation(sig, "result contains %s, which was not requested (request: %v)", m, digestStrings(items))
			return
		}
	}
	for _, d := range items {
		rt := routes[d.String()]
		lvl, _ := wd.lookup(rt)
		site := valueSite(rt)
		switch {
		case lvl < 0:
			w.Count("find_missing_truly_missing_digests", 1)
			if !got[d.String()] {
				c.Violation(site+".FindMissing:absent-digest-not-reported-missing", "%s is absent under %v but was not reported missing", d, digestStrings(rt.levels))
			}
		case lvl == 0:
			w.Count("find_missing_present_exact_digests", 1)
			if got[d.String()] {
				c.Violation(site+".FindMissing:present-digest-reported-missing", "%s is present as %s but was reported missing", d, rt.levels[0])
			}
		default:
			w.Count("find_missing_present_under_ancestor_digests", 1)
			if got[d.String()] {
				c.Violation(site+".FindMissing:present-under-ancestor-reported-missing", "%s is present under ancestor %s (level %d) but was reported missing", d, rt.levels[lvl], lvl)
			}
		}
	}
}
