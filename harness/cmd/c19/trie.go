package main

// Engine T: the real digest.InstanceNameTrie against a Go map, after every
// insertion / overwrite / removal.

import (
	"fmt"
	"strings"

	"github.com/buildbarn/bb-storage/pkg/digest"

	"verif/lib/run"
)

// probeTrie compares all four query methods for one name.
func probeTrie(c *run.Case, w *run.Worker, it *digest.InstanceNameTrie, ref map[string]int, name string) {
	in := mustName(name)
	wantExact, present := ref[name]
	if !present {
		wantExact = -1
	}
	wantLongest := -1
	lp, anyPrefix := longestPrefix(ref, name)
	if anyPrefix {
		wantLongest = ref[lp]
		if lp != name {
			w.Count("trie_longest_prefix_shorter_hits", 1)
			// A registered name that is a longer *string* prefix of the
			// probe than the component-wise match exists: the hostile class.
			for k := range ref {
				if len(k) > len(lp) && strings.HasPrefix(name, k) && !isPrefix(k, name) {
					w.Count("trie_string_not_component_prefix_probes", 1)
					break
				}
			}
		}
	} else {
		w.Count("trie_no_prefix_probes", 1)
	}
	w.Count("trie_probes", 1)
	if got := it.GetExact(in); got != wantExact {
		c.Violation("InstanceNameTrie.GetExact:differs-from-map-reference", "GetExact(%q) = %d, want %d; contents %v", name, got, wantExact, ref)
	}
	if got := it.ContainsExact(in); got != present {
		c.Violation("InstanceNameTrie.ContainsExact:differs-from-map-reference", "ContainsExact(%q) = %v, want %v; contents %v", name, got, present, ref)
	}
	if got := it.GetLongestPrefix(in); got != wantLongest {
		c.Violation("InstanceNameTrie.GetLongestPrefix:differs-from-map-reference", "GetLongestPrefix(%q) = %d, want %d (prefix %q); contents %v", name, got, wantLongest, lp, ref)
	}
	if got := it.ContainsPrefix(in); got != anyPrefix {
		c.Violation("InstanceNameTrie.ContainsPrefix:differs-from-map-reference", "ContainsPrefix(%q) = %v, want %v; contents %v", name, got, anyPrefix, ref)
	}
}

// trieRemove removes a present name from both and checks the "became empty"
// result.
func trieRemove(c *run.Case, w *run.Worker, it *digest.InstanceNameTrie, ref map[string]int, name string) {
	delete(ref, name)
	got := it.Remove(mustName(name))
	c.Logf("Remove(%q) -> %v", name, got)
	w.Count("trie_removes", 1)
	if len(ref) == 0 {
		w.Count("trie_removes_to_empty", 1)
	}
	if got != (len(ref) == 0) {
		c.Violation("InstanceNameTrie.Remove:emptiness-result-wrong", "Remove(%q) returned %v, but %d names remain: %v", name, got, len(ref), ref)
	}
}

var trieExhUniverse = []string{"", "a", "a/b", "a/b/c", "ab", "a/c", "b", "a/b/d", "ab/c"}
var trieExhProbes = append(append([]string(nil), trieExhUniverse...), "abc", "a/bc", "a/b/c/d", "c", "b/a", "a/b/cd", "ab/c/a", "a/a")

// trieExhaustive: every subset of a 9-name universe; for each, every single
// removal and every single insertion, probing 17 names each time.
func trieExhaustive(w *run.Worker) {
	total := 1 << len(trieExhUniverse)
	n := (total + w.Workers - 1) / w.Workers
	w.Cases("trie-exhaustive", n, func(c *run.Case) {
		mask := int(c.Index)*w.Workers + w.Index
		if mask >= total {
			return
		}
		c.Desc("subset mask %09b of %v", mask, trieExhUniverse)
		r := c.Rng
		build := func() (*digest.InstanceNameTrie, map[string]int) {
			it := digest.NewInstanceNameTrie()
			ref := map[string]int{}
			order := r.Perm(len(trieExhUniverse))
			for _, i := range order {
				if mask&(1<<i) != 0 {
					it.Set(mustName(trieExhUniverse[i]), i)
					ref[trieExhUniverse[i]] = i
				}
			}
			return it, ref
		}
		it, ref := build()
		for _, p := range trieExhProbes {
			probeTrie(c, w, it, ref, p)
		}
		w.Distinct(fmt.Sprintf("trie-exh|%d", mask))
		for i, nm := range trieExhUniverse {
			it, ref := build()
			if mask&(1<<i) != 0 {
				trieRemove(c, w, it, ref, nm)
			} else {
				it.Set(mustName(nm), 100+i)
				ref[nm] = 100 + i
			}
			for _, p := range trieExhProbes {
				probeTrie(c, w, it, ref, p)
			}
			w.Distinct(fmt.Sprintf("trie-exh|%d|%d", mask, i))
		}
	})
	w.Exhaustive("trie: all subsets of 9 names x every single removal/insertion x 17 probes", true)
}

// trieCase: a random history of Set (new and overwrite) and Remove (of present
// names only: removing an absent name is outside the documented contract).
func trieCase(w *run.Worker) func(c *run.Case) {
	return func(c *run.Case) {
		r := c.Rng
		it := digest.NewInstanceNameTrie()
		ref := map[string]int{}
		touched := map[string]bool{}
		wide := r.Chance(1, 3)
		name := func() string {
			if wide {
				return randName(r, 4)
			}
			return smallName(r, 4)
		}
		steps := r.Range(8, 40)
		c.Desc("trie history of %d steps, wide=%v", steps, wide)
		var hist []string
		for s := 0; s < steps; s++ {
			var mutated string
			k := r.Intn(10)
			switch {
			case k < 4 && len(ref) > 0: // remove a present name
				keys := sortedKeys(ref)
				mutated = keys[r.Intn(len(keys))]
				hist = append(hist, "-"+mutated)
				trieRemove(c, w, it, ref, mutated)
			case k < 5 && len(ref) > 0: // overwrite
				keys := sortedKeys(ref)
				mutated = keys[r.Intn(len(keys))]
				v := r.Intn(6)
				c.Logf("Set(%q, %d) (overwrite)", mutated, v)
				hist = append(hist, fmt.Sprintf("=%s:%d", mutated, v))
				it.Set(mustName(mutated), v)
				ref[mutated] = v
				w.Count("trie_overwrites", 1)
			default:
				mutated = name()
				v := r.Intn(6) // 0 is a legal value; equal values for different names too
				c.Logf("Set(%q, %d)", mutated, v)
				hist = append(hist, fmt.Sprintf("+%s:%d", mutated, v))
				it.Set(mustName(mutated), v)
				ref[mutated] = v
				w.Count("trie_sets", 1)
			}
			touched[mutated] = true
			w.Distinct("trie|" + strings.Join(hist, ","))
			// Probe the neighbourhood of the mutation, every present name, and
			// some random and mangled names.
			for _, a := range ancestors(mutated) {
				probeTrie(c, w, it, ref, a)
			}
			probeTrie(c, w, it, ref, join(append(split(mutated), "a")))
			probeTrie(c, w, it, ref, join(append(split(mutated), "ab", "b")))
			probeTrie(c, w, it, ref, mangle(r, mutated))
			for _, k := range sortedKeys(ref) {
				probeTrie(c, w, it, ref, k)
				if r.Chance(1, 3) {
					probeTrie(c, w, it, ref, mangle(r, k))
					probeTrie(c, w, it, ref, join(append(split(k), genComponents[r.Intn(len(genComponents))])))
				}
			}
			for i := 0; i < 6; i++ {
				probeTrie(c, w, it, ref, name())
			}
		}
		for _, k := range sortedKeys(touched) {
			probeTrie(c, w, it, ref, k)
		}
		if c.Index == 0 {
			w.Sample(map[string]any{"engine": "trie", "history": hist, "final": ref})
		}
	}
}
