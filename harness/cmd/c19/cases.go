package main

import (
	"context"
	"fmt"
	"strings"

	"github.com/buildbarn/bb-storage/pkg/digest"
	"google.golang.org/grpc/codes"

	"verif/lib/gen"
	"verif/lib/run"
)

// Universe of registered prefixes: the empty prefix, nested chains, and pairs
// where one is a string prefix but not a component prefix of the other
// ("a" / "ab", "a/b" / "a/bc", "a/b" / "a/b-1").
var prefixUniverse = []string{"", "a", "a/b", "a/b/c", "a/b/c/a", "ab", "a/bc", "a/b-1", "b", "b/a", "abc", "12", "x-1/y"}

// Replacement prefixes: anything of the above (so rewrites may shorten,
// lengthen, empty or collide) plus a few foreign ones.
var addUniverse = append(append([]string(nil), prefixUniverse...), "zz", "p/q/r", "a/b/c/d/e", "0")

var faultCodes = []codes.Code{codes.Unavailable, codes.Internal, codes.DeadlineExceeded, codes.PermissionDenied}

func genEntry(r *gen.Rng, prefix string, nStores int) *entry {
	e := &entry{prefix: prefix, store: r.Intn(nStores), hier: r.Chance(1, 3)}
	switch r.Intn(4) {
	case 0:
		e.add = prefix // no rewrite: NewInstanceNamePatcher returns the no-op patcher
	default:
		e.add = addUniverse[r.Intn(len(addUniverse))]
	}
	return e
}

// queryName generates the instance name of a request given the registered
// prefixes: mostly below a registered prefix, often a string-mangled variant,
// sometimes anything.
func queryName(r *gen.Rng, wd *world) string {
	keys := sortedKeys(wd.entries)
	base := prefixUniverse[r.Intn(len(prefixUniverse))]
	if len(keys) > 0 && r.Chance(3, 4) {
		base = keys[r.Intn(len(keys))]
	}
	switch r.Intn(10) {
	case 0, 1:
		return base
	case 2, 3:
		return mangle(r, base)
	case 4:
		return join(append(split(mangle(r, base)), split(randName(r, 2))...))
	case 5:
		return randName(r, 4)
	}
	return join(append(split(base), split(randName(r, 3))...))
}

// blob: an object identity (hash+size+function) that can be requested under
// several instance names.
type blob struct {
	data []byte
	fn   int
}

func (b blob) under(name string) digest.Digest {
	return gen.DigestOf(name, digestFunctions[b.fn], b.data)
}

func newBlob(r *gen.Rng, tag, id uint64) blob {
	return blob{data: gen.UniqueBlob(tag, id, r.Range(0, 24)), fn: r.Intn(len(digestFunctions))}
}

// place stores distinct values at some of the levels a digest may be served
// from.
func (wd *world) place(r *gen.Rng, d digest.Digest, num, den int) {
	rt := wd.route(d)
	if rt == nil {
		return
	}
	for k, l := range rt.levels {
		if r.Chance(num, den) {
			wd.stores[rt.e.store].Set(l, []byte(fmt.Sprintf("value|s%d|%s|level%d|%x", rt.e.store, l, k, r.Uint64()&0xffff)))
		}
	}
}

func (wd *world) planFault(r *gen.Rng) {
	wd.faultStore = -1
	if r.Chance(1, 7) {
		wd.faultStore = r.Intn(len(wd.stores))
		wd.faultFrom = r.Pick(0, 0, 1, 1, 2, 3)
		wd.faultCount = r.Pick(1, 1, 1, 2, 1000) // a single failing call, a short outage, or "down"
		wd.faultCode = faultCodes[r.Intn(len(faultCodes))]
		wd.c.Logf("fault plan: s%d fails %d calls from call %d with %v", wd.faultStore, wd.faultCount, wd.faultFrom, wd.faultCode)
	}
}

// demuxCase: one generated configuration and a history of operations and (in
// direct mode) trie mutations.
func demuxCase(w *run.Worker) func(c *run.Case) {
	ctx := context.Background()
	return func(c *run.Case) {
		r := c.Rng
		nStores := r.Range(1, 4)
		wd := newWorld(c, w, nStores)
		nPrefixes := r.Pick(0, 1, 1, 2, 2, 3, 3, 4, 5, 6)
		for _, i := range r.Perm(len(prefixUniverse))[:nPrefixes] {
			p := prefixUniverse[i]
			wd.entries[p] = genEntry(r, p, nStores)
		}
		direct := r.Bool()
		if direct {
			wd.buildDirect()
			w.Count("worlds_built_direct", 1)
		} else {
			if err := wd.buildFromConfiguration(); err != nil {
				c.Desc("configuration rejected")
				c.Violation("NewBlobAccessFromConfiguration(demultiplexing):valid-configuration-rejected", "%v for %s", err, wd.describe())
				return
			}
			w.Count("worlds_built_from_configuration", 1)
		}
		c.Desc("demux %s", wd.describe())
		if _, ok := wd.entries[""]; ok {
			w.Count("worlds_with_empty_prefix", 1)
		}
		if c.Index == 0 {
			w.Sample(map[string]any{"engine": "demux", "world": wd.describe()})
		}

		nops := r.Range(4, 12)
		for op := 0; op < nops; op++ {
			if direct && r.Chance(1, 4) {
				// Mutate the trie: insert, replace or remove a prefix.
				keys := sortedKeys(wd.entries)
				switch k := r.Intn(3); {
				case k == 0 && len(keys) > 0:
					p := keys[r.Intn(len(keys))]
					c.Logf("unregister %q", p)
					wd.unregister(p)
					w.Count("trie_removals_under_composite", 1)
				case k == 1 && len(keys) > 0:
					e := genEntry(r, keys[r.Intn(len(keys))], nStores)
					c.Logf("replace %v", e)
					wd.register(e)
					w.Count("trie_replacements_under_composite", 1)
				default:
					e := genEntry(r, prefixUniverse[r.Intn(len(prefixUniverse))], nStores)
					c.Logf("register %v", e)
					wd.register(e)
					w.Count("trie_insertions_under_composite", 1)
				}
			}
			wd.planFault(r)
			tag := uint64(c.Index)<<8 | uint64(w.Index)
			b := newBlob(r, tag, uint64(op))
			name := queryName(r, wd)
			kind := r.Intn(10)
			w.Distinct(fmt.Sprintf("demux|%s|%d|%s", wd.describe(), kind, name))
			switch {
			case kind < 2:
				d := b.under(name)
				wd.place(r, d, 1, 2)
				wd.opGet(ctx, d)
			case kind < 3:
				d := b.under(name)
				child := newBlob(r, tag^0x5555, uint64(op)).under(name)
				wd.place(r, d, 1, 2)
				wd.opGetFromComposite(ctx, d, child)
			case kind < 5:
				wd.opPut(ctx, b.under(name), b.data, r.Chunking(len(b.data), true))
			case kind < 6:
				wd.opGetCapabilities(ctx, name)
			default:
				// FindMissing over 0..10 digests: several blobs, several
				// names, the same blob under several names.
				cnt := r.Pick(0, 1, 2, 3, 4, 5, 6, 8, 10)
				blobs := []blob{b, newBlob(r, tag, uint64(op)+1000), newBlob(r, tag, uint64(op)+2000)}
				nameSet := []string{name, queryName(r, wd), queryName(r, wd), queryName(r, wd)}
				if r.Chance(3, 4) {
					// mostly avoid unknown names, otherwise almost every
					// multi-name request is simply rejected
					for i, n := range nameSet {
						for tries := 0; tries < 4; tries++ {
							if _, ok := longestPrefix(wd.entries, n); ok {
								break
							}
							n = queryName(r, wd)
						}
						nameSet[i] = n
					}
				}
				var ds []digest.Digest
				for i := 0; i < cnt; i++ {
					d := blobs[r.Intn(len(blobs))].under(nameSet[r.Intn(len(nameSet))])
					ds = append(ds, d)
					wd.place(r, d, 1, 3)
				}
				wd.opFindMissing(ctx, ds)
			}
		}
	}
}

// hierCase: the hierarchical decorator alone over one backend; deep names,
// many digests per FindMissing, random placements, failing backend calls.
func hierCase(w *run.Worker) func(c *run.Case) {
	ctx := context.Background()
	return func(c *run.Case) {
		r := c.Rng
		wd := newWorld(c, w, 1)
		wd.noDemux = true
		if r.Chance(1, 4) {
			if err := wd.buildFromConfiguration(); err != nil {
				c.Desc("configuration rejected")
				c.Violation("NewBlobAccessFromConfiguration(hierarchical_instance_names):valid-configuration-rejected", "%v", err)
				return
			}
		} else {
			wd.buildDirect()
		}
		tag := uint64(c.Index)<<8 | uint64(w.Index) | 1<<40
		nBlobs := r.Range(1, 6)
		var blobs []blob
		for i := 0; i < nBlobs; i++ {
			blobs = append(blobs, newBlob(r, tag, uint64(i)))
		}
		maxDepth := r.Range(0, 5)
		num := r.Pick(0, 1, 1, 2, 3, 7)
		cnt := r.Pick(1, 2, 3, 4, 6, 8, 12, 16)
		var ds []digest.Digest
		var pattern []string
		for i := 0; i < cnt; i++ {
			var name string
			if r.Chance(1, 4) {
				name = randName(r, maxDepth)
			} else {
				name = smallName(r, maxDepth)
			}
			bi := r.Intn(nBlobs)
			d := blobs[bi].under(name)
			ds = append(ds, d)
			wd.place(r, d, num, 8)
			rt := wd.route(d)
			var pat strings.Builder
			for _, l := range rt.levels {
				if wd.stores[0].Has(l) {
					pat.WriteByte('1')
				} else {
					pat.WriteByte('0')
				}
			}
			pattern = append(pattern, fmt.Sprintf("%d@%s:%s", bi, name, pat.String()))
		}
		c.Desc("hier(%s) %v", wd.built, pattern)
		w.Distinct("hier|" + strings.Join(pattern, ","))
		w.Count("hier_worlds", 1)
		if c.Index == 0 {
			w.Sample(map[string]any{"engine": "hier", "built": wd.built, "digest@name:placement(most specific first)": pattern})
		}
		wd.planFault(r)
		wd.opFindMissing(ctx, ds)
		for _, d := range ds {
			if r.Chance(1, 2) {
				continue
			}
			wd.planFault(r)
			switch r.Intn(4) {
			case 0:
				wd.opGetFromComposite(ctx, d, newBlob(r, tag^0x77, 99).under(d.GetInstanceName().String()))
			case 1:
				b := blobs[r.Intn(nBlobs)]
				wd.opPut(ctx, b.under(d.GetInstanceName().String()), b.data, r.Chunking(len(b.data), true))
			default:
				wd.opGet(ctx, d)
			}
		}
	}
}

// hierExhaustive: three digests on the chain "", a, a/b, a/b/c; every
// combination of (depth of the requested name, subset of ancestor levels
// holding the object) per digest: 30^3 placements. Each is checked with
// FindMissing over the three digests and a Get per digest.
func hierExhaustive(w *run.Worker) {
	ctx := context.Background()
	chain := []string{"", "a", "a/b", "a/b/c"}
	type cfg struct{ depth, mask int }
	var cfgs []cfg
	for d := 0; d < len(chain); d++ {
		for m := 0; m < 1<<(d+1); m++ {
			cfgs = append(cfgs, cfg{d, m})
		}
	}
	total := len(cfgs) * len(cfgs)
	n := (total + w.Workers - 1) / w.Workers
	w.Cases("hier-exhaustive", n, func(c *run.Case) {
		id := int(c.Index)*w.Workers + w.Index
		if id >= total {
			return
		}
		c0, c1 := cfgs[id/len(cfgs)], cfgs[id%len(cfgs)]
		c.Desc("hier exhaustive: digest0 depth %d mask %04b, digest1 depth %d mask %04b, digest2 all 30", c0.depth, c0.mask, c1.depth, c1.mask)
		blobs := []blob{{data: []byte("blob-zero"), fn: 2}, {data: []byte("blob-one"), fn: 2}, {data: []byte("blob-two"), fn: 0}}
		for _, c2 := range cfgs {
			wd := newWorld(c, w, 1)
			wd.noDemux = true
			wd.buildDirect()
			var ds []digest.Digest
			for i, cf := range []cfg{c0, c1, c2} {
				d := blobs[i].under(chain[cf.depth])
				ds = append(ds, d)
				for lvl := 0; lvl <= cf.depth; lvl++ {
					if cf.mask&(1<<lvl) != 0 {
						l := withName(d, chain[lvl])
						wd.stores[0].Set(l, []byte(fmt.Sprintf("value|%s", l)))
					}
				}
			}
			w.Count("hier_exhaustive_placements", 1)
			w.Distinct(fmt.Sprintf("hier-exh|%d|%d|%d", id, c2.depth, c2.mask))
			wd.opFindMissing(ctx, ds)
			for _, d := range ds {
				wd.opGet(ctx, d)
			}
		}
	})
	w.Exhaustive("hierarchical: 3 digests x (depth<=3 x every subset of ancestor levels) = 27000 placements, FindMissing + Get each", true)
}
