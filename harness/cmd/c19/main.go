// C19 — instance-name routing: longest-prefix demultiplexing, hierarchical
// fallback.
//
// Monitors, all over the REAL bb-storage code with recording model backends
// (model.Store, AC-style: a different value per instance name):
//
//   - trie / trie-exhaustive: digest.InstanceNameTrie against a Go map after
//     every Set / overwrite / Remove (GetExact, ContainsExact, GetLongestPrefix,
//     ContainsPrefix, Remove's emptiness result).
//   - demux: a generated demultiplexing configuration (prefixes incl. "",
//     nested, string-but-not-component prefixes; rewrites incl. to/from "";
//     backends shared or not; some behind the hierarchical decorator), built
//     either by configuration.NewBlobAccessFromConfiguration (production path)
//     or from the exported constructors with a live InstanceNameTrie that the
//     case keeps mutating. Get / GetFromComposite / Put / FindMissing /
//     GetCapabilities are compared with a reference on component lists, and the
//     backends' call logs say where and under which name each request arrived.
//   - hier / hier-exhaustive: NewHierarchicalInstanceNamesBlobAccess alone:
//     most-specific-ancestor reads and missing-iff-missing-everywhere.
//
// The oracle's reference functions live in names.go and share no code with
// pkg/digest.
package main

import (
	"verif/lib/run"
)

func main() {
	run.Main(run.Spec{
		Property: "C19",
		Level:    "exploration",
		Rule: "trie: random Set/overwrite/Remove histories over names of depth<=4 (narrow and wide alphabets), all four queries probed on the neighbourhood of every mutation; exhaustive: every subset of 9 names x every single insert/remove x 17 probes. " +
			"demux: case = (0-6 registered prefixes from a universe with \"\", nested and string-but-not-component prefixes) x (rewrite per prefix, incl. none/to \"\"/from \"\"/depth-changing) x (1-4 backends, possibly shared) x (hierarchical decorator per prefix) x (built from configuration | built from constructors with a trie mutated between operations) x 4-12 operations (Get, GetFromComposite, Put, GetCapabilities, FindMissing over 0-10 digests of up to 4 names) x optional failing backend call. " +
			"hier: 1-16 digests of 1-6 blobs under names of depth<=5, random placements over ancestor levels; exhaustive: 3 digests x depth<=3 x every placement subset. " +
			"distinct = configuration + operation kind + instance name (demux), mutation history (trie), placement pattern (hier)",
		Workers: 8,
		Floors: map[string]int64{ // ~1/5 of what quick observes at seed 1; the exhaustive count is exact
			"trie_probes":           600000,
			"trie_removes":          12000,
			"trie_removes_to_empty": 3000,
			"trie_string_not_component_prefix_probes":     30000,
			"trie_longest_prefix_shorter_hits":            200000,
			"unknown_name_rejections":                     12000,
			"rewritten_ops":                               35000,
			"rewrite_to_empty_ops":                        1800,
			"rewrite_from_empty_ops":                      6000,
			"nested_prefix_routes":                        10000,
			"string_not_component_prefix_routes":          5000,
			"find_missing_multi_backend":                  3000,
			"find_missing_multi_partition":                5000,
			"find_missing_partitions_sharing_backend":     3000,
			"find_missing_present_under_ancestor_digests": 13000,
			"find_missing_truly_missing_digests":          20000,
			"find_missing_with_backend_failure":           700,
			"reads_served_by_ancestor":                    8000,
			"reads_with_several_holders":                  10000,
			"reads_with_backend_failure":                  700,
			"trie_removals_under_composite":               1400,
			"trie_insertions_under_composite":             1800,
			"worlds_built_from_configuration":             2300,
			"worlds_built_direct":                         2300,
			"hier_exhaustive_placements":                  20000,
			"put_ops":                                     10000,
			"get_from_composite_ops":                      6000,
			"get_capabilities_ops":                        3500,
		},
		Assumptions: []string{
			"parent and child digest of GetFromComposite carry the same instance name (one REv2 request carries one instance name)",
			"only names that are present are removed from the trie (removing an absent name is outside the documented contract)",
			"trie values are >= 0 (negative values mean 'absent' in the trie's own API)",
			"'unknown names are rejected' is read as: a non-NOT_FOUND error, and Get/Put/GetFromComposite/GetCapabilities reach no backend",
			"backend names handed to the demultiplexer are unique per registered prefix (documented requirement of DemultiplexedBlobAccessGetter)",
			"when a backend call fails with a non-NOT_FOUND error, FindMissing must not succeed (no 'union of what the backends report' exists) and a read must return an error or the most specific ancestor's object",
		},
		Body: body,
	})
}

func body(w *run.Worker) {
	trieExhaustive(w)
	w.Cases("trie", w.N(8000, 250000), trieCase(w))
	w.Cases("demux", w.N(24000, 1000000), demuxCase(w))
	hierExhaustive(w)
	w.Cases("hier", w.N(14000, 600000), hierCase(w))
}
