package main

// Group "daemon": the quarantine through the REAL configuration path (child
// process cmd/storaged: NewBlobAccessFromConfiguration, file-backed blocks
// and key-location map, the wiring of new_blob_access.go). Black box: with
// new_blocks = 1 a single client's uploads are allocated in upload order, so
// everything uploaded before the victim lies in the same or an older block;
// with old_blocks = 0 reads have no side effects. After the read of a
// corrupted object failed, nothing uploaded before it may be served any more,
// and the daemon keeps accepting uploads.

import (
	"bytes"
	"fmt"
	"os"
	"path/filepath"
	"strings"
	"time"

	"verif/lib/daemon"
	"verif/lib/gen"
	"verif/lib/run"
)

func daemonCase(w *run.Worker, c *run.Case) {
	r := c.Rng
	g := daemon.Geometry{Old: 0, Cur: r.Range(1, 3), New: 1, Spare: r.Range(1, 2), BlockSectors: r.Range(2, 4), Records: r.Range(400, 900), EpochMillis: 20}
	dir, err := os.MkdirTemp(filepath.Join(os.Getenv("VERIF_DIR"), "work"), "daemon-c08-")
	if err != nil {
		if dir, err = os.MkdirTemp("", "daemon-c08-"); err != nil {
			w.Inconclusive("cannot create a scratch directory for the daemon engine")
			return
		}
	}
	defer os.RemoveAll(dir)
	cfgPath := daemon.Config(dir, g)
	c.Desc("daemon %+v", g)
	p, err := daemon.Start(dir, cfgPath, false, 0)
	if err != nil {
		w.Inconclusive("daemon engine: " + err.Error())
		return
	}
	defer p.Kill()
	type ob struct {
		id   uint64
		size int
	}
	block := g.BlockSectors * 4096
	budget := (g.Cur + g.New - 1) * block // no rotation: keep one block of headroom
	if budget < block {
		budget = block * 3 / 4
	}
	var objs []ob
	next := uint64(c.Index)<<32 | uint64(w.Index)<<48 | 1<<62
	// Warm-up: in the initial phase all current+new blocks are "new" and
	// allocation is spread over them; only once the list has rotated is there
	// a single block that uploads are allocated from, in upload order.
	for filled := 0; filled < (g.Cur+g.New+2)*block; {
		next++
		size := r.Range(block/4, block/2)
		if _, err := p.Cmd(fmt.Sprintf("PUT %d %d", next, size)); err != nil {
			w.Inconclusive("daemon engine: " + err.Error())
			return
		}
		filled += size
	}
	for budget > 0 && len(objs) < 14 {
		next++
		o := ob{next, r.Range(64, block/3)}
		if o.size > budget {
			break
		}
		budget -= o.size
		ack, err := p.Cmd(fmt.Sprintf("PUT %d %d", o.id, o.size))
		if err != nil {
			w.Inconclusive("daemon engine: " + err.Error())
			return
		}
		if strings.HasSuffix(ack, " OK") {
			objs = append(objs, o)
		}
	}
	get := func(o ob) string {
		ack, err := p.Cmd(fmt.Sprintf("GET %d %d", o.id, o.size))
		if err != nil {
			return "ENGINE " + err.Error()
		}
		return ack
	}
	var served []ob
	for _, o := range objs {
		if strings.HasSuffix(get(o), " OK") {
			served = append(served, o)
		}
	}
	if len(served) < 3 {
		w.Count("daemon_cases_without_enough_objects", 1)
		p.Quit()
		return
	}
	k := r.Range(1, len(served)-1)
	v := served[k]
	data := gen.UniqueBlob(0xda, v.id, v.size)
	blocksPath := filepath.Join(dir, "blocks")
	img, err := os.ReadFile(blocksPath)
	if err != nil {
		w.Inconclusive("daemon engine: cannot read the blocks file: " + err.Error())
		return
	}
	at := bytes.Index(img, data[:32])
	if at < 0 {
		w.Count("daemon_victim_not_found_in_blocks_file", 1)
		p.Quit()
		return
	}
	f, err := os.OpenFile(blocksPath, os.O_RDWR, 0)
	if err != nil {
		w.Inconclusive("daemon engine: " + err.Error())
		return
	}
	pos := int64(at + r.Intn(v.size))
	b := []byte{img[pos] ^ byte(1<<uint(r.Intn(8)))}
	f.WriteAt(b, pos)
	f.Close()
	ack := get(v)
	w.Count("daemon_corruptions", 1)
	switch {
	case strings.HasSuffix(ack, " OK"), strings.HasSuffix(ack, " WRONG"):
		c.Violation("daemon.Get:corrupted-object-served", "the daemon served an object whose stored bytes were corrupted: %s", ack)
		return
	case strings.HasSuffix(ack, " ERR Internal"):
		w.Count("daemon_detections", 1)
	default:
		// e.g. NOTFOUND: nothing detected, nothing to assert
		w.Count("daemon_corruptions_without_detection", 1)
		p.Quit()
		return
	}
	for i := 0; i < k; i++ {
		a := get(served[i])
		w.Count("daemon_older_or_same_checked", 1)
		if strings.HasSuffix(a, " OK") || strings.HasSuffix(a, " WRONG") {
			c.Violation("daemon.Get:object-in-quarantined-block-served", "after the daemon (store built by the configuration layer, %+v) detected corruption in upload #%d, upload #%d - allocated before it, hence in the same or an older block - is still served: %s", g, k, i, a)
			return
		}
	}
	// The daemon keeps accepting uploads. Right after a quarantine a
	// persistent store may refuse with UNAVAILABLE until its syncer has
	// rewritten the state (regions of released blocks return only then):
	// retried a bounded number of times; never getting through gives no
	// verdict here (the assembled-store group asserts that clause).
	accepted := 0
	for i := 0; i < 120 && accepted < 3; i++ {
		next++
		o := ob{next, r.Range(64, block/3)}
		a, err := p.Cmd(fmt.Sprintf("PUT %d %d", o.id, o.size))
		if err != nil {
			w.Inconclusive("daemon engine: " + err.Error())
			return
		}
		if strings.HasSuffix(a, " ERR Unavailable") {
			time.Sleep(time.Duration(g.EpochMillis) * time.Millisecond)
			continue
		}
		if !strings.HasSuffix(a, " OK") {
			c.Violation("daemon.Put:upload-refused-after-detection", "upload after a detected corruption: %s", a)
			return
		}
		accepted++
		if a := get(o); !strings.HasSuffix(a, " OK") {
			c.Violation("daemon.Get:upload-after-detection-unreadable", "%s", a)
			return
		}
	}
	w.Count("daemon_uploads_accepted_after_detection", int64(accepted))
	if err := p.Quit(); err != nil {
		c.Violation("daemon:graceful-shutdown-failed", "%v", err)
	}
	w.Distinct(fmt.Sprintf("daemon|%+v|%d|%d", g, k, len(served)))
}
