//verif:race
// C08 — detected corruption is quarantined: the read fails with INTERNAL, no
// object in the same or an older block is served afterwards, newer blocks are
// unaffected, uploads keep working, an upload in flight into a quarantined
// block is not acknowledged.
//
// Engine: assembled local store (lib/asm) with the CAS or AC read-buffer
// factory on a simulated device whose bytes the harness corrupts. The
// key-location-map wrapper gives every object's absolute block, so the model
// can partition the key universe into "<= b" and "> b" after a detection.
package main

import (
	"context"
	"fmt"
	"io"
	"sort"
	"strings"
	"sync"
	"time"

	remoteexecution "github.com/bazelbuild/remote-apis/build/bazel/remote/execution/v2"
	"github.com/buildbarn/bb-storage/pkg/blobstore/buffer"
	"github.com/buildbarn/bb-storage/pkg/digest"
	"google.golang.org/grpc/codes"
	"google.golang.org/grpc/status"
	"google.golang.org/protobuf/proto"

	"verif/lib/asm"
	"verif/lib/gen"
	"verif/lib/run"
)

func main() {
	run.Main(run.Spec{
		Property: "C08",
		Level:    "fault_enumeration",
		Rule: "case = generated configuration (CAS or AC factory, flat/hierarchical, geometry) x history of uploads and rotations, then 1-4 rounds of: corrupt the device range of a present object (single bit, prefix, suffix, one sector, whole object), optionally with a gated upload in flight and concurrent readers, read it, re-read the whole key universe and compare with the model partitioned by absolute block; " +
			"distinct = hash of (configuration, corrupted block position, corruption extent, in-flight/concurrent flags); non-trivial = a detection happened with at least one object in an older-or-same block and one in a newer block",
		Workers:     12,
		Floors:      map[string]int64{"detections": 300, "older_or_same_checked": 1000, "newer_checked": 1000, "uploads_after_detection": 300, "inflight_uploads": 80, "inflight_refused": 20, "ac_detections": 30, "concurrent_rounds": 50, "slow_reader_rounds_with_release": 20},
		Assumptions: []string{"an object's absolute block is what the key-location-map wrapper recorded for its newest index entry", "for the AC factory the obligation exists only when the corrupted bytes no longer unmarshal as an ActionResult"},
		Race:        true,
		Body:        body,
	})
}

type obj struct {
	d    digest.Digest
	data []byte
	ac   *remoteexecution.ActionResult
}

func body(w *run.Worker) {
	ctx := context.Background()
	w.Cases("quarantine", w.N(720, 12000), func(c *run.Case) { one(ctx, w, c) })
	w.Cases("daemon", w.N(8, 160), func(c *run.Case) { daemonCase(w, c) })
}

func one(ctx context.Context, w *run.Worker, c *run.Case) {
	r := c.Rng
	cfg := asm.GenConfig(r, false)
	cfg.InMemoryBlocks = false
	if cfg.Sector == 1 {
		cfg.Sector = 16
	}
	ac := r.Chance(1, 4)
	cfg.Factory = "cas"
	if ac {
		cfg.Factory = "ac"
		cfg.Hierarchical = false
	}
	cfg.Label = "c08"
	// One case in three runs with the data integrity validation cache of the
	// real configuration in front of the CAS factory. A cached digest is read
	// without validation for one (virtual) minute; the clock is advanced past
	// that before every read that is expected to detect something.
	valCache := !ac && r.Chance(1, 3)
	cfg.ValidationCache = valCache
	cfg.Records = r.Range(500, 1500)
	cfg.GetAttempts, cfg.PutAttempts = 16, 64
	if cfg.BlockSectors < 6 {
		cfg.BlockSectors = 6
	}
	s, err := asm.Build(cfg, asm.NewMedia(cfg))
	if err != nil {
		panic(err)
	}
	c.Desc("%v ac=%v", cfg, ac)
	if c.Index == 0 {
		w.Sample(map[string]any{"config": cfg.String(), "ac": ac})
	}
	inst := []string{"", "q", "q/r"}[r.Intn(3)]
	block := int(cfg.BlockBytes())
	id := 0
	var objs []*obj

	newObj := func(size int) *obj {
		id++
		if ac {
			ar := &remoteexecution.ActionResult{
				StdoutRaw: gen.UniqueBlob(uint64(c.Index)<<20|uint64(w.Index)<<44, uint64(id), size),
				ExitCode:  int32(id),
			}
			data, _ := proto.Marshal(ar)
			return &obj{d: gen.SHA256Digest(inst, gen.UniqueBlob(77, uint64(id)+uint64(c.Index)<<24, 20)), data: data, ac: ar}
		}
		data := gen.UniqueBlob(uint64(c.Index)<<20|uint64(w.Index)<<44, uint64(id), size)
		return &obj{d: gen.SHA256Digest(inst, data), data: data}
	}
	put := func(o *obj, yield func()) error {
		if ac {
			return s.BA.Put(ctx, o.d, buffer.NewProtoBufferFromProto(o.ac, buffer.UserProvided))
		}
		u := &asm.Upload{Data: o.data, Chunks: r.Chunking(len(o.data), false), Yield: yield}
		return s.BA.Put(ctx, o.d, u.CASBuffer(o.d))
	}
	// read returns (served, code). served means the right content came back.
	read := func(o *obj) (bool, error) {
		if ac {
			m, err := s.BA.Get(ctx, o.d).ToProto(&remoteexecution.ActionResult{}, 1<<26)
			if err != nil {
				return false, err
			}
			if !proto.Equal(m, o.ac) {
				return true, fmt.Errorf("WRONG")
			}
			return true, nil
		}
		got, err := asm.GetBytes(ctx, s.BA, o.d)
		if err != nil {
			return false, err
		}
		if string(got) != string(o.data) {
			return true, fmt.Errorf("WRONG")
		}
		return true, nil
	}
	loc := func(o *obj) (asm.AbsLocation, bool) { return s.KLM.Lookup(s.Key(o.d)) }

	// Fill: enough uploads to have objects in old, current and new blocks.
	nfill := r.Range(cfg.BlockCount()*2, cfg.BlockCount()*5)
	for i := 0; i < nfill; i++ {
		o := newObj(r.Range(1, block/3))
		if err := put(o, nil); err == nil {
			objs = append(objs, o)
		} else if !ac {
			c.Logf("fill put failed: %v", err)
		}
	}

	rounds := r.Range(1, 4)
	for round := 0; round < rounds; round++ {
		// Snapshot: which objects are served right now, and where they are.
		// Reading refreshes objects in old blocks, so locations are taken
		// after the reads.
		type st struct {
			o   *obj
			loc asm.AbsLocation
		}
		// snapshot reads everything (except one object) until a whole pass
		// had no side effect on the index: reading refreshes objects in old
		// blocks, which can rotate others out.
		snapshot := func(exclude *obj) ([]st, bool) {
			var out []st
			for _, o := range objs {
				if o == exclude {
					continue
				}
				if ok, err := read(o); ok && err == nil {
					if l, ok := loc(o); ok {
						out = append(out, st{o, l})
					}
				} else if err != nil && !asm.IsNotFound(err) && status.Code(err) != codes.Unavailable && !strings.Contains(err.Error(), "already been released") {
					c.Violation("localstore.Get:error-on-uncorrupted-object", "round %d snapshot: reading an uncorrupted object failed with %v", round, err)
				}
			}
			// Reading refreshes objects, which can rotate objects read
			// earlier in the pass out again: keep only those whose newest
			// location is still in the list.
			pops := s.BL.Pops.Load()
			var kept []st
			for _, e := range out {
				if l, ok := loc(e.o); ok && l.AbsBlock >= pops {
					kept = append(kept, st{e.o, l})
				}
			}
			return kept, true
		}
		present, _ := snapshot(nil)
		// Victim: a present object with non-zero size.
		var cands []st
		for _, p := range present {
			if p.loc.Size > 0 {
				cands = append(cands, p)
			}
		}
		if len(cands) == 0 {
			break
		}
		v := cands[r.Intn(len(cands))]
		pops := s.BL.Pops.Load()
		if v.loc.AbsBlock < pops {
			continue // stale mirror entry (should not happen: it was just read)
		}
		blocks := s.Alloc.Blocks()
		devOff := blocks[v.loc.AbsBlock].Offset + v.loc.Offset
		if valCache {
			s.M.Clock.Advance(2 * time.Minute)
			w.Count("rounds_with_validation_cache", 1)
		}

		// Optionally start an upload that is in flight during the detection.
		var inflight *obj
		var inflightDone chan error
		var gate chan struct{}
		if !ac && r.Chance(1, 2) {
			inflight = newObj(r.Range(2, block/3))
			gate = make(chan struct{})
			arrived := make(chan struct{}, 1)
			n := 0
			inflightDone = make(chan error, 1)
			y := func() {
				n++
				if n == 2 {
					arrived <- struct{}{}
					<-gate
				}
			}
			go func(o *obj) {
				u := &asm.Upload{Data: o.data, Chunks: []int{1}, Yield: y}
				inflightDone <- s.BA.Put(ctx, o.d, u.CASBuffer(o.d))
			}(inflight)
			select {
			case <-arrived:
				w.Count("inflight_uploads", 1)
			case err := <-inflightDone:
				c.Logf("in-flight upload ended early: %v", err)
				inflight = nil
				close(gate)
			}
		}

		if v.loc.AbsBlock < s.BL.Pops.Load() {
			// the allocation of the in-flight upload rotated the victim's block out
			if gate != nil && inflight != nil {
				close(gate)
				if err := <-inflightDone; err == nil {
					objs = append(objs, inflight)
				}
			}
			continue
		}
		// Corrupt.
		extent := r.Intn(5)
		size := int(v.loc.Size)
		var coff, clen int
		var mask byte = byte(1 << uint(r.Intn(8)))
		switch extent {
		case 0: // single bit
			coff, clen = r.Intn(size), 1
		case 1: // prefix
			coff, clen = 0, r.Range(1, size)
			mask = 0xff
		case 2: // suffix
			clen = r.Range(1, size)
			coff = size - clen
			mask = 0xa5
		case 3: // one sector's worth inside the object
			coff = r.Intn(size)
			clen = cfg.Sector
			if coff+clen > size {
				clen = size - coff
			}
			mask = 0xff
		default: // whole object
			coff, clen = 0, size
			mask = 0x5a
		}
		s.M.Blocks.Corrupt(devOff+int64(coff), clen, mask)
		corrupted := append([]byte(nil), v.o.data...)
		for i := coff; i < coff+clen; i++ {
			corrupted[i] ^= mask
		}
		mustDetect := true
		if ac {
			mustDetect = proto.Unmarshal(corrupted, &remoteexecution.ActionResult{}) != nil
		}
		c.Logf("round %d: corrupt object in abs block %d (pops=%d) off=%d len=%d extent=%d mustDetect=%v", round, v.loc.AbsBlock, pops, coff, clen, extent, mustDetect)

		// Variant "slow reader": the read of the victim started BEFORE the
		// corruption and before further rotations; the detection happens at the
		// end of the stream, after blocks were released in between.
		var slow buffer.ChunkReader
		if !ac && v.loc.Size >= 8 && r.Chance(1, 3) {
			// undo the corruption, start reading, rotate, re-snapshot, corrupt the tail
			s.M.Blocks.Corrupt(devOff+int64(coff), clen, mask)
			cr := s.BA.Get(ctx, v.o.d).ToChunkReader(0, size/4+1)
			if _, err := cr.Read(); err != nil {
				cr.Close()
			} else {
				slow = cr
				pops0 := s.BL.Pops.Load()
				for k := 0; k < 3*cfg.BlockCount() && s.BL.Pops.Load() == pops0; k++ {
					o := newObj(r.Range(block/3, block/2))
					if put(o, nil) == nil {
						objs = append(objs, o)
					}
				}
				w.Count("slow_reader_rounds", 1)
				if s.BL.Pops.Load() > pops0 {
					w.Count("slow_reader_rounds_with_release", 1)
				}
				// new snapshot (without touching the victim)
				var ok bool
				if present, ok = snapshot(v.o); !ok {
					w.Count("rounds_without_stable_snapshot", 1)
					for {
						if _, err := cr.Read(); err != nil {
							break
						}
					}
					cr.Close()
					break
				}
				coff, clen, mask = size-1, 1, 0x3c // the last byte is in the withheld final portion
			}
			s.M.Blocks.Corrupt(devOff+int64(coff), clen, mask)
		}
		finishRot := func() {}
		quarantinedBefore := s.LBM.VerifSnapshot().TotalBlocksToBeReleased
		// Variant "detection during a rotation": while the slow reader is
		// about to hit the corruption, another upload is parked inside the
		// allocator call of a rotation (store lock held, block list being
		// extended); the detection's callback runs without the lock.
		var rotDone chan []*obj
		variant := r.Intn(3) // 0: none, 1: parked rotation, 2: parked FindMissing
		// Variant "detection during a FindMissing": an existence check that
		// has looked its digests up (first scan, under the read lock) and
		// still has to refresh some of them is parked on its last lookup
		// while the slow reader reaches the corruption. What the check had
		// to refresh lies in the quarantined blocks by the time it resumes:
		// it must come back missing, not present.
		type fmRes struct {
			missing digest.Set
			err     error
		}
		var fmDone chan fmRes
		var fmOld []st
		fmParked := false
		if slow != nil && variant == 2 {
			sn := s.LBM.VerifSnapshot()
			popsNow := s.BL.Pops.Load()
			sb := digest.NewSetBuilder(0)
			for _, p := range present {
				if p.o != v.o && p.loc.AbsBlock <= v.loc.AbsBlock && int(p.loc.AbsBlock-popsNow) < sn.OldBlocks && len(fmOld) < 3 {
					fmOld = append(fmOld, p)
					sb.Add(p.o.d)
				}
			}
			if len(fmOld) > 0 {
				set := sb.Build()
				s.KLM.ParkAt.Store(int64(set.Length()))
				s.Gate.Close("klm.get")
				fmDone = make(chan fmRes, 1)
				go func() {
					m, err := s.BA.FindMissing(ctx, set)
					fmDone <- fmRes{m, err}
				}()
				for k := 0; k < 50; k++ {
					run.Settle(90 * time.Second)
					if s.Gate.Waiting("klm.get") > 0 || len(fmDone) > 0 {
						break
					}
				}
				fmParked = s.Gate.Waiting("klm.get") > 0
				finishRot = func() {
					s.KLM.ParkAt.Store(0)
					s.Gate.Open("klm.get")
				}
			}
		}
		if slow != nil && variant == 1 {
			s.Gate.Close("alloc.newblock")
			rotDone = make(chan []*obj, 1)
			finishRot = func() {
				if rotDone != nil {
					s.Gate.Open("alloc.newblock")
					objs = append(objs, <-rotDone...)
					rotDone = nil
				}
			}
			var fill []*obj
			for k := 0; k < 4; k++ {
				fill = append(fill, newObj(r.Range(block/2, block*3/4)))
			}
			chunks := make([][]int, len(fill))
			for i, o := range fill {
				chunks[i] = r.Chunking(len(o.data), false)
			}
			go func() {
				var ok []*obj
				for i, o := range fill {
					u := &asm.Upload{Data: o.data, Chunks: chunks[i]}
					if s.BA.Put(ctx, o.d, u.CASBuffer(o.d)) == nil {
						ok = append(ok, o)
					}
				}
				rotDone <- ok
			}()
			for k := 0; k < 50; k++ {
				run.Settle(90 * time.Second)
				if s.Gate.Waiting("alloc.newblock") > 0 || len(rotDone) > 0 {
					break
				}
			}
			if s.Gate.Waiting("alloc.newblock") > 0 {
				w.Count("detections_during_parked_rotation", 1)
			}
		}
		// Read the victim, optionally while other readers are active.
		conc := r.Chance(1, 3) && slow == nil
		var wg sync.WaitGroup
		if conc {
			w.Count("concurrent_rounds", 1)
			for k := 0; k < r.Range(1, 4); k++ {
				p := present[r.Intn(len(present))]
				if p.o == v.o {
					continue
				}
				wg.Add(1)
				go func(o *obj) {
					defer wg.Done()
					if ok, err := read(o); ok && err != nil {
						c.Violation("localstore.Get:wrong-bytes-during-detection", "a concurrent reader got wrong content")
					}
				}(p.o)
			}
		}
		var served bool
		var rerr error
		if slow != nil {
			for {
				if _, rerr = slow.Read(); rerr != nil {
					break
				}
			}
			// The reader's Close waits for a refresh running in the
			// background, which needs the store lock: let the parked
			// rotation go first.
			finishRot()
			slow.Close()
			if rerr == io.EOF {
				served, rerr = true, nil
			}
		} else if ac || r.Chance(1, 2) {
			served, rerr = read(v.o)
		} else {
			served, rerr = readVia(ctx, s, v.o, r.Intn(4), r)
			w.Count("victim_reads_by_other_consumers", 1)
		}
		wg.Wait()
		finishRot()
		if served && rerr == nil && !ac {
			c.Violation("localstore.Get:corrupted-object-served", "reading an object whose stored bytes were corrupted (extent %d, %d bytes at %d) completed successfully", extent, clen, coff)
		}
		if served && rerr != nil && !ac {
			c.Violation("localstore.Get:corrupted-object-served", "reading a corrupted object returned wrong bytes")
		}
		detected := false
		if rerr != nil && !served && asm.IsNotFound(rerr) && v.loc.AbsBlock < s.BL.Pops.Load() {
			// The victim's block was rotated out (by a concurrent reader's
			// refresh) before the victim was read: nothing to detect.
			w.Count("victim_rotated_out_before_read", 1)
			mustDetect = false
		} else if rerr != nil && !served {
			if status.Code(rerr) == codes.Internal {
				detected = true
			} else if mustDetect {
				c.Violation("localstore.Get:corruption-wrong-error-code", "reading a corrupted object failed with %v; INTERNAL is required", rerr)
			}
		}
		if mustDetect && !detected && !(served && rerr == nil && ac) {
			// already reported above for CAS; for AC a successful parse means no obligation
		}
		if ac && mustDetect && served {
			c.Violation("localstore.Get:corrupted-object-served", "AC object whose bytes no longer unmarshal was returned")
		}
		if !detected && fmDone != nil {
			<-fmDone
			fmDone = nil
		}
		if !detected {
			// No detection (AC bytes still parse): the corrupted message may
			// have been copied by a refresh; drop the victim from the universe.
			for i, o := range objs {
				if o == v.o {
					objs = append(objs[:i], objs[i+1:]...)
					break
				}
			}
			if gate != nil && inflight != nil {
				close(gate)
				if err := <-inflightDone; err == nil {
					objs = append(objs, inflight)
				}
			}
			continue
		}
		w.Count("detections", 1)
		if fmDone != nil {
			res := <-fmDone
			fmDone = nil
			if fmParked && res.err == nil {
				w.Count("detections_during_parked_findmissing", 1)
				miss := map[digest.Digest]bool{}
				for _, d := range res.missing.Items() {
					miss[d] = true
				}
				for _, p := range fmOld {
					if !miss[p.o.d] {
						c.Violation("localstore.FindMissing:object-in-quarantined-block-present", "a FindMissing call that had looked an object of block %d up and still had to refresh it (old block) was resumed after corruption was detected in block %d: it reported the object present instead of missing", p.loc.AbsBlock, v.loc.AbsBlock)
					}
				}
			}
		}
		if ac {
			w.Count("ac_detections", 1)
		}
		b := v.loc.AbsBlock
		found := false
		for _, m := range s.ErrLog.Messages() {
			if strings.Contains(m, "data integrity") {
				found = true
			}
		}
		if !found {
			w.Count("detections_without_errorlog", 1)
		}

		// Let the in-flight upload finish: it must not be acknowledged into a
		// quarantined block.
		if gate != nil && inflight != nil {
			close(gate)
			err := <-inflightDone
			c.Logf("in-flight upload -> %v", err)
			if err == nil {
				if l, ok := loc(inflight); ok && l.AbsBlock <= b {
					c.Violation("localstore.Put:upload-into-quarantined-block-acknowledged", "an upload that was in flight while block %d was quarantined was acknowledged although it was written to block %d", b, l.AbsBlock)
				}
				if ok, rerr := read(inflight); !ok || rerr != nil {
					// an acknowledged upload that is not readable right away
					c.Violation("localstore.Put:acknowledged-inflight-upload-unreadable", "an in-flight upload was acknowledged after the detection but reads back %v", rerr)
				}
				objs = append(objs, inflight)
			} else {
				w.Count("inflight_refused", 1)
			}
		}

		// A concurrent reader (or the in-flight machinery) may legitimately
		// have refreshed an object into a newer block while the detection
		// happened: re-take every location now, before the partition reads.
		for i := range present {
			if l, ok := loc(present[i].o); ok {
				present[i].loc = l
			}
		}
		// Partition check over everything that was served before the detection.
		older, newer := 0, 0
		for _, p := range present {
			if p.loc.AbsBlock <= b {
				older++
				w.Count("older_or_same_checked", 1)
				ok, err := read(p.o)
				if ok {
					nl, _ := loc(p.o)
					c.Violation("localstore.Get:object-in-quarantined-block-served", "after corruption was detected in block %d, an object stored in block %d was still returned (err=%v); loc before=%+v now=%+v victim=%+v pops=%d lbm=%+v errlog=%v", b, p.loc.AbsBlock, err, p.loc, nl, v.loc, s.BL.Pops.Load(), s.LBM.VerifSnapshot(), s.ErrLog.Messages())
				} else if !asm.IsNotFound(err) {
					c.Violation("localstore.Get:quarantined-object-error-code", "after the detection, reading an object of a quarantined block failed with %v instead of NOT_FOUND", err)
				}
				if pr, err := asm.Present(ctx, s.BA, p.o.d); err == nil && pr {
					c.Violation("localstore.FindMissing:object-in-quarantined-block-present", "after corruption was detected in block %d, an object stored in block %d is still reported present", b, p.loc.AbsBlock)
				}
			}
		}
		// Introspection invariant: the detection may quarantine blocks up to
		// and including b, not newer ones.
		if sn := s.LBM.VerifSnapshot(); sn.TotalBlocksToBeReleased > uint64(b)+1 && sn.TotalBlocksToBeReleased > quarantinedBefore && sn.TotalBlocksToBeReleased > sn.TotalBlocksReleased {
			q := sn.TotalBlocksToBeReleased
			c.Violation("oldCurrentNewLocationBlobMap:quarantine-exceeds-corrupted-block", "corruption was detected in absolute block %d but the map now treats all blocks below %d as to be released (before the detection: %d)", b, q, quarantinedBefore)
		}
		// Newer objects, closest to b first (an over-reaching quarantine hits
		// those first, before any allocation by a refresh can rotate blocks).
		sort.Slice(present, func(i, j int) bool { return present[i].loc.AbsBlock < present[j].loc.AbsBlock })
		for _, p := range present {
			if p.loc.AbsBlock > b {
				newer++
				w.Count("newer_checked", 1)
				popsBefore := s.BL.Pops.Load()
				pr, err := asm.Present(ctx, s.BA, p.o.d)
				if err != nil && (status.Code(err) == codes.Unavailable) {
					continue // refresh refused: a held reader/writer pins the spare blocks
				}
				if err != nil || !pr {
					if p.loc.AbsBlock < popsBefore {
						// Physically popped meanwhile (rotation caused by the
						// refreshes of this very check loop). An over-reaching
						// quarantine shows before any pop: the closest newer
						// blocks are checked first.
						continue
					}
					c.Violation("localstore.FindMissing:newer-object-lost", "after corruption was detected in block %d, an object in the newer block %d is reported missing (err=%v, pops=%d)", b, p.loc.AbsBlock, err, popsBefore)
					continue
				}
				if ok, err := read(p.o); !ok || err != nil {
					if err != nil && status.Code(err) == codes.Unavailable {
						continue
					}
					c.Violation("localstore.Get:newer-object-lost", "after corruption was detected in block %d, an object in the newer block %d is no longer served: %v", b, p.loc.AbsBlock, err)
				}
			}
		}
		if older > 1 && newer > 0 {
			w.Distinct(fmt.Sprintf("%v|pos=%d|ext=%d|inflight=%v|conc=%v", cfg, b-pops, extent, inflight != nil, conc))
		}

		// The store keeps accepting uploads - also when the first block
		// allocation after the quarantine fails (no free region at that
		// moment): that upload is refused, the following ones are not.
		nUploads := r.Range(1, 6)
		injectedAt := int64(-1)
		if r.Chance(1, 3) {
			injectedAt = s.Alloc.Calls() + 1
			s.Alloc.FailAt[injectedAt] = true
			s.Alloc.FailErr = status.Error(codes.Unavailable, "injected allocation failure")
			nUploads = r.Range(6, 3*cfg.BlockCount()+6)
			w.Count("allocation_failures_injected_after_detection", 1)
		}
		for k := nUploads; k > 0; k-- {
			o := newObj(r.Range(1, block/3))
			callsBefore := s.Alloc.Calls()
			err := put(o, nil)
			w.Count("uploads_after_detection", 1)
			if err != nil && injectedAt > callsBefore && injectedAt <= s.Alloc.Calls() {
				// this upload ran into the injected allocation failure
				w.Count("uploads_refused_by_injected_allocation_failure", 1)
				continue
			}
			if err != nil {
				c.Violation("localstore.Put:upload-refused-after-detection", "an upload after a detected corruption failed with %v", err)
				continue
			}
			if ok, err := read(o); !ok || err != nil {
				c.Violation("localstore.Get:upload-after-detection-unreadable", "an object uploaded after the detection reads back %v", err)
			}
			objs = append(objs, o)
		}
		if injectedAt >= 0 {
			delete(s.Alloc.FailAt, injectedAt)
		}
		// Drop quarantined objects from the universe.
		var keep []*obj
		for _, o := range objs {
			if l, ok := loc(o); ok && l.AbsBlock > b {
				keep = append(keep, o)
			}
		}
		objs = keep
	}
	w.Count("rotations", s.BL.Pops.Load())
	// Every reader the store opened on a block has been closed again: a reader
	// left open by a failed (corrupted) read pins its block for good, and a
	// store that loses a block per detection stops accepting uploads.
	if o, cl := s.Factory.Opens.Load(), s.Factory.Closes.Load(); o != cl {
		c.Violation("readBufferFactory:reader-not-closed", "at the end of the history %d readers were opened and %d closed; open: %v", o, cl, s.Log.OpenReaders())
	}
}

// readVia reads an object through a consumer other than ToByteSlice. It
// returns (served, err) like read: served = the consumer completed with the
// right bytes for the range it asked for.
func readVia(ctx context.Context, s *asm.Store, o *obj, how int, r *gen.Rng) (bool, error) {
	size := len(o.data)
	b := s.BA.Get(ctx, o.d)
	switch how {
	case 0: // chunk reader at offset 0, mid or exactly the object's size
		off := []int{0, size / 2, size}[r.Intn(3)]
		cr := b.ToChunkReader(int64(off), r.Range(1, size+1))
		var got []byte
		for {
			chunk, err := cr.Read()
			if err == io.EOF {
				break
			}
			if err != nil {
				cr.Close()
				return false, err
			}
			got = append(got, chunk...)
		}
		cr.Close()
		if string(got) != string(o.data[off:]) {
			return true, fmt.Errorf("WRONG")
		}
		return true, nil
	case 1: // reader
		rd := b.ToReader()
		got, err := io.ReadAll(rd)
		rd.Close()
		if err != nil {
			return false, err
		}
		if string(got) != string(o.data) {
			return true, fmt.Errorf("WRONG")
		}
		return true, nil
	case 2: // writer
		var sb strings.Builder
		if err := b.IntoWriter(&sb); err != nil {
			return false, err
		}
		if sb.String() != string(o.data) {
			return true, fmt.Errorf("WRONG")
		}
		return true, nil
	default: // stream clone, one half discarded
		b1, b2 := b.CloneStream()
		done := make(chan struct{})
		go func() { b2.Discard(); close(done) }()
		got, err := b1.ToByteSlice(1 << 26)
		<-done
		if err != nil {
			return false, err
		}
		if string(got) != string(o.data) {
			return true, fmt.Errorf("WRONG")
		}
		return true, nil
	}
}
