//verif:race

// C15 — cloned buffers and background tasks: same bytes for all, no deadlock,
// no panic.
//
// Runtime monitor over the real pkg/blobstore/buffer code (and the real
// replication.NewLocalBlobReplicator): every case builds a base buffer over a
// scripted, monitored source, applies a program of CloneStream / CloneCopy /
// WithTask / WithErrorHandler / replicate nodes, and lets every resulting
// buffer be consumed on a goroutine of its own. A driver observes the
// goroutines (quiescence by goroutine dumps, DESIGN.md §3.6) and releases one
// harness gate at a time, which both controls the interleaving of
// Read/Close/Discard and holds background tasks open until everything else
// has come to rest. The oracle compares what every consumer saw with the
// reference semantics of the program (prog.go), counts the source's Close
// calls, checks that no completion was reported while a task was unfinished,
// and turns "every goroutine parked, nothing left to release" into a stall
// verdict. Panics are caught per operation.
//
// Groups:
//
//	sched      PRNG-chosen schedules over 2-4 stream clones with scripted consumers
//	sched-sys  ALL interleavings of small consumer scripts (2 consumers, <=6 steps; 3, <=5)
//	prog-sys   every op sequence up to depth 2 (thorough: 3) x 10 bases x 8 consumptions
//	prog-rnd   random heterogeneous programs, free-running or scheduled
package main

import (
	"fmt"
	"os"
	"runtime"
	"strings"

	"verif/lib/gen"
	"verif/lib/run"
)

func main() {
	run.Main(run.Spec{
		Property: "C15",
		Level:    "exploration",
		Rule: "case = base buffer kind (validated slice, CAS slice, CAS reader, CAS chunk reader, validated reader-at, proto, error) with scripted chunking / I/O-error position / corrupt, short or long content " +
			"x program tree of CloneStream, CloneCopy, WithTask(ok|fail|gated), WithErrorHandler(pass|translate|retry), replicate(real localBlobReplicator into a gated sink) " +
			"x consumption script per leaf (GetSizeBytes, ToByteSlice, IntoWriter, ReadAt, ToProto, ToChunkReader/ToReader with k reads then Close, Discard) " +
			"x schedule (sequence of released gates); sched-sys enumerates every schedule of the small scopes, prog-sys every program of the bounded depth; " +
			"distinct = hash of plan shape + base + released-gate sequence; non-trivial = at least two consumers or one decorator",
		Workers: 8,
		Race:    true,
		// Floors: about 1/5 of what the quick tier measures at seed 1 (the
		// enumerations are deterministic, their floors sit just below the exact count).
		Floors: map[string]int64{
			"schedules":             1000,
			"random_programs":       1600,
			"sys_interleavings":     2500,
			"sys_programs":          3300,
			"leaf_consumptions":     6000,
			"size_calls":            2000,
			"decisions_with_choice": 4000,
			"parked_in_multiplexer": 10000,
			"parked_waiting_for_other_clones_to_declare": 3000,
			"parked_waiting_for_task":                    400,
			"task_gate_releases":                         800,
			"task_error_reported":                        250,
			"io_error_seen":                              900,
			"validation_error_seen":                      800,
			"early_closes":                               800,
			"source_closed_once":                         1900,
			"leaves_on_clone_of_task_buffer":             500,
			"error_agreement_checks":                     400,
			"thorough:schedules":                         100000,
			"thorough:random_programs":                   100000,
			"thorough:sys_programs":                      31000,
			"thorough:sys_interleavings":                 27000,
			"thorough:parked_in_multiplexer":             400000,
			"thorough:task_gate_releases":                40000,
		},
		Assumptions: []string{
			"after CloneStream every branch (including a CloneCopy of a stream clone, which consumes it synchronously) continues on its own goroutine, as Buffer.CloneStream documents",
			"a consumer that obtained a ChunkReader/ReadCloser always closes it, also after an error",
			"for ToReader the completion report of a buffer with a task is Close() (its return value carries the task's error); for ToChunkReader it is Read()=EOF or Close()",
			"ReadAt returning io.EOF for a short read in preference to a task's error is not counted as 'task error not reported' (counter readat_eof_in_preference_to_task_error)",
			"where the statement is silent (data error vs. task error, which of two failing tasks, effect of a translating error handler) every candidate outcome is accepted",
		},
		Body: body,
	})
}

func body(w *run.Worker) {
	// Vary real parallelism over the workers (free-running programs and the
	// race detector see different preemption patterns).
	runtime.GOMAXPROCS([]int{4, 2, 4, 1, 4, 2, 4, 3}[w.Index%8])

	stalls := 0
	tooManyStalls := func() bool { return stalls >= 8 }
	// Debugging aid: C15_ONLY=<group> runs one group only (floors will then
	// be missed, so such a run never yields a verdict).
	only := os.Getenv("C15_ONLY")
	skip := func(group string) bool { return only != "" && only != group }

	w.Cases("sched", zeroIf(skip("sched"), w.N(1600, 120000)), func(c *run.Case) {
		if tooManyStalls() {
			w.Count("cases_skipped_after_stalls", 1)
			return
		}
		r := caseRng(w, c)
		big := r.Chance(1, 150)
		kind := r.Pick(baseCASChunk, baseCASChunk, baseCASChunk, baseCASReader)
		p := &plan{base: genBase(r, kind, big)}
		p.root = genSchedTree(r, len(p.base.data), r.Range(2, 4), r.Chance(1, 3))
		p.finalize()
		srcGate := r.Bool()
		stick := r.Pick(0, 50, 90)
		c.Desc("%s srcGate=%v stick=%d", p, srcGate, stick)
		d := newDriver(true, srcGate, nil)
		d.choose = stickyChooser(r, d, stick)
		if runPlan(w, c, p, d, "sched").stalled {
			stalls++
		}
		w.Count("schedules", 1)
	})

	replayMismatches := 0
	cfgs := sysConfigs(w.Thorough())
	w.Cases("sched-sys", zeroIf(skip("sched-sys"), share(len(cfgs), w)), func(c *run.Case) {
		if tooManyStalls() {
			w.Count("cases_skipped_after_stalls", 1)
			return
		}
		cfg := cfgs[int(c.Index)*w.Workers+w.Index]
		c.Desc("all interleavings of %s", cfg.name)
		var prefix []int
		var prevReady []string
		nIter := 0
		for n := 0; ; n++ {
			nIter = n + 1
			if n >= 20000 {
				w.Inconclusive("sched-sys: more than 20000 interleavings for " + cfg.name)
				break
			}
			var branching, taken []int
			var readySets []string
			d := newDriver(true, false, nil)
			d.choose = func(ready []string) int {
				i := 0
				if len(taken) < len(prefix) {
					i = prefix[len(taken)]
					// Replaying a prefix must reproduce the decision points
					// of the previous execution exactly.
					if rs := strings.Join(ready, " "); len(taken) < len(prevReady) && prevReady[len(taken)] != rs {
						w.Count("sys_replay_mismatches", 1)
						replayMismatches++
						fmt.Fprintf(os.Stderr, "REPLAY MISMATCH %s: decision %d ready now [%s] before [%s]; released %v\nSETTLE: %s\n", cfg.name, len(taken), rs, prevReady[len(taken)], d.trace, d.lastSettle)
					}
				}
				taken = append(taken, i)
				branching = append(branching, len(ready))
				readySets = append(readySets, strings.Join(ready, " "))
				return i
			}
			p := cfg.mk()
			p.finalize()
			if runPlan(w, c, p, d, "sys:"+cfg.name).stalled {
				stalls++
				if tooManyStalls() {
					break
				}
			}
			w.Count("sys_interleavings", 1)
			// next schedule in depth-first order
			k := len(taken) - 1
			for k >= 0 && taken[k]+1 >= branching[k] {
				k--
			}
			if k < 0 {
				break
			}
			prefix = append(append([]int(nil), taken[:k]...), taken[k]+1)
			prevReady = readySets[:k+1]
		}
		w.Count("sys_configs", 1)
		if only != "" {
			fmt.Fprintf(os.Stderr, "SYS %s => %d\n", cfg.name, nIter)
		}
	})
	w.Exhaustive("interleavings: 2 consumers with <=6 script steps, 3 consumers with <=5, 5 source scripts", !tooManyStalls() && replayMismatches == 0)

	depth := 2
	if w.Thorough() {
		depth = 3
	}
	seqs := sysSequences(depth)
	total := len(seqs) * numSysBases * numSysLeaves
	w.Cases("prog-sys", zeroIf(skip("prog-sys"), share(total, w)), func(c *run.Case) {
		if tooManyStalls() {
			w.Count("cases_skipped_after_stalls", 1)
			return
		}
		g := int(c.Index)*w.Workers + w.Index
		li := g % numSysLeaves
		bi := (g / numSysLeaves) % numSysBases
		seq := seqs[g/(numSysLeaves*numSysBases)]
		base := sysBase(bi)
		p := &plan{base: base, root: buildSysTree(seq, func() *leafSpec { return sysLeaf(li, len(base.data)) })}
		p.finalize()
		c.Desc("[%s] %s", seqName(seq), p)
		d := newDriver(false, false, nil)
		d.choose = func(ready []string) int { return c.Rng.Intn(len(ready)) }
		if runPlan(w, c, p, d, "prog").stalled {
			stalls++
		}
		w.Count("sys_programs", 1)
	})
	w.Exhaustive(fmt.Sprintf("programs: every op sequence of length<=%d over %d ops x %d bases x %d consumptions", depth, len(sysOps), numSysBases, numSysLeaves), !tooManyStalls())

	w.Cases("prog-rnd", zeroIf(skip("prog-rnd"), w.N(2400, 160000)), func(c *run.Case) {
		if tooManyStalls() {
			w.Count("cases_skipped_after_stalls", 1)
			return
		}
		r := caseRng(w, c)
		p := &plan{base: genBase(r, r.Intn(numBases), r.Chance(1, 200))}
		budget := 6
		depth := r.Range(1, 4)
		p.root = genRandomTree(r, len(p.base.data), depth, &budget)
		p.finalize()
		controlled := r.Chance(1, 3)
		srcGate := controlled && r.Bool()
		c.Desc("%s controlled=%v srcGate=%v", p, controlled, srcGate)
		d := newDriver(controlled, srcGate, nil)
		d.choose = stickyChooser(r, d, r.Pick(0, 50))
		if runPlan(w, c, p, d, "rnd").stalled {
			stalls++
		}
		w.Count("random_programs", 1)
	})
}

// caseRng derives the case's generator from c.Rng and the worker index.
// lib/gen.New folds its seeds into one word with xor and add only, so for
// small seeds the stream of (worker w, case i) equals that of (worker 0, case
// i^k): every worker would run the same cases in a different order (measured:
// distinct cases = 1/8 of the evaluations at seeds 1, 2, 3, 7). Mixing the
// worker index in through the generator's output function separates them.
func caseRng(w *run.Worker, c *run.Case) *gen.Rng {
	return gen.New(c.Rng.Uint64(), gen.New(uint64(w.Index)+1).Uint64(), c.Rng.Uint64())
}

func zeroIf(skip bool, n int) int {
	if skip {
		return 0
	}
	return n
}

func share(total int, w *run.Worker) int {
	n := total / w.Workers
	if w.Index < total%w.Workers {
		n++
	}
	return n
}

// stickyChooser picks uniformly among the releasable gates, but with
// probability stick% keeps driving the actor it released last (deep runs of
// one consumer while the others lag behind).
func stickyChooser(r *gen.Rng, d *driver, stick int) func([]string) int {
	return func(ready []string) int {
		if len(d.trace) > 0 && r.Intn(100) < stick {
			last := d.trace[len(d.trace)-1]
			if i := strings.IndexByte(last, '/'); i >= 0 {
				last = last[:i]
			}
			for i, n := range ready {
				if strings.HasPrefix(n, last+"/") {
					return i
				}
			}
		}
		return r.Intn(len(ready))
	}
}

var sampled = map[string]int{}

func runPlan(w *run.Worker, c *run.Case, p *plan, d *driver, group string) outcome {
	x := newExec(c, w, p, d)
	out := x.run()
	x.check(out)
	nl := len(x.order)
	if nl >= 2 || p.root.op != opLeaf {
		w.Distinct(group + "|" + p.base.String() + "|" + p.root.shape() + "|" + strings.Join(d.trace, ","))
	}
	w.Max("max_consumers", int64(nl))
	g := strings.SplitN(group, ":", 2)[0]
	if sampled[g] < 1 && (len(d.trace) > 3 || g == "prog") {
		sampled[g]++
		var res []string
		for _, lr := range x.order {
			res = append(res, x.describe(lr))
		}
		w.Sample(map[string]any{"group": group, "plan": p.String(), "released_gates": d.trace, "consumers": res, "source_closes": x.mon.closes.Load()})
	}
	return out
}

// ---- systematic schedule scopes ----

type sysConfig struct {
	name string
	mk   func() *plan
}

type sysScript struct {
	name string
	cost int
	mk   func() *leafSpec
}

func sysScripts() []sysScript {
	l := func(f func(l *leafSpec)) func() *leafSpec {
		return func() *leafSpec {
			s := &leafSpec{writerAt: -1, reads: -1, max: 1 << 20, chunkMax: 1 << 16}
			f(s)
			return s
		}
	}
	out := []sysScript{
		{"Discard", 1, l(func(s *leafSpec) { s.method = mDiscard })},
		{"ToByteSlice", 1, l(func(s *leafSpec) { s.method = mByteSlice })},
		{"ToByteSlice(max=1)", 1, l(func(s *leafSpec) { s.method = mByteSlice; s.max = 1 })},
		{"IntoWriter", 1, l(func(s *leafSpec) { s.method = mIntoWriter })},
		{"ReadAt(2@1)", 1, l(func(s *leafSpec) { s.method = mReadAt; s.off = 1; s.plen = 2 })},
	}
	for k := 0; k <= 3; k++ {
		k := k
		out = append(out, sysScript{fmt.Sprintf("CR.read*%d.close", k), k + 2, l(func(s *leafSpec) { s.method = mChunkReader; s.reads = k })})
	}
	out = append(out,
		sysScript{"CR.readAll.close", 5, l(func(s *leafSpec) { s.method = mChunkReader })},
		sysScript{"Reader.read*1.close", 3, l(func(s *leafSpec) { s.method = mReader; s.chunkMax = 2; s.reads = 1 })},
		sysScript{"Reader.readAll.close", 5, l(func(s *leafSpec) { s.method = mReader; s.chunkMax = 2 })},
	)
	return out
}

func sysConfigs(thorough bool) []sysConfig {
	data := []byte("abcd")
	type src struct {
		name   string
		chunks []int
		fault  int
		failAt int
	}
	srcs := []src{
		{"[4]", []int{4}, faultNone, -1},
		{"[2,2]", []int{2, 2}, faultNone, -1},
		{"[4]io@0", []int{4}, faultIO, 0},
		{"[2,2]io@2", []int{2, 2}, faultIO, 2},
		{"[2,2]corrupt", []int{2, 2}, faultCorrupt, -1},
	}
	type variant struct {
		name string
		kind int
		wrap func(n *node) *node
	}
	variants := []variant{{"casChunk", baseCASChunk, func(n *node) *node { return n }}}
	if thorough {
		variants = append(variants,
			variant{"casReader", baseCASReader, func(n *node) *node { return n }},
			variant{"casChunk+task(gated)", baseCASChunk, func(n *node) *node { return &node{op: opTask, gated: true, kids: []*node{n}} }},
			variant{"casChunk+eh", baseCASChunk, func(n *node) *node { return &node{op: opEH, eh: ehPass, kids: []*node{n}} }},
		)
	}
	scripts := sysScripts()
	var out []sysConfig
	add := func(v variant, s src, sel []int) {
		var names []string
		for _, i := range sel {
			names = append(names, scripts[i].name)
		}
		out = append(out, sysConfig{
			name: fmt.Sprintf("%s%s: %s", v.name, s.name, strings.Join(names, " || ")),
			mk: func() *plan {
				b := &baseSpec{kind: v.kind, data: data, deliver: data, chunks: s.chunks, fault: s.fault, failAt: s.failAt, digest: gen.SHA256Digest("c15", data)}
				if s.fault == faultCorrupt {
					b.deliver = []byte("abXd")
				}
				var tree *node
				for j := len(sel) - 1; j >= 0; j-- {
					leaf := &node{op: opLeaf, leaf: scripts[sel[j]].mk()}
					if tree == nil {
						tree = leaf
					} else {
						tree = &node{op: opStream, kids: []*node{leaf, tree}}
					}
				}
				return &plan{base: b, root: v.wrap(tree)}
			},
		})
	}
	for _, v := range variants {
		for _, s := range srcs {
			for i := range scripts {
				for j := i; j < len(scripts); j++ {
					if scripts[i].cost+scripts[j].cost <= 6 {
						add(v, s, []int{i, j})
					}
					for k := j; k < len(scripts); k++ {
						if scripts[i].cost+scripts[j].cost+scripts[k].cost <= 5 {
							add(v, s, []int{i, j, k})
						}
					}
				}
			}
		}
	}
	return out
}
