package main

// Executor and oracle: builds the real buffers of a plan, runs every branch on
// its own goroutine under the driver, records what each consumer observed and
// compares it with the reference semantics of prog.go.

import (
	"bytes"
	"context"
	"fmt"
	"io"
	"runtime"
	"runtime/debug"
	"sort"
	"strings"
	"sync"
	"sync/atomic"

	remoteexecution "github.com/bazelbuild/remote-apis/build/bazel/remote/execution/v2"
	"github.com/buildbarn/bb-storage/pkg/blobstore/buffer"
	"github.com/buildbarn/bb-storage/pkg/blobstore/replication"
	"google.golang.org/grpc/codes"
	"google.golang.org/grpc/status"
	"google.golang.org/protobuf/proto"

	"verif/lib/gen"
	"verif/lib/run"
)

type taskRun struct {
	id   string
	done atomic.Bool
	err  error
}

type panicRec struct {
	where, op string
	p1        bool
	val       string
	stack     string
}

type leafRun struct {
	n    *node
	spec *leafSpec
	acc  accept

	// written by the leaf's goroutine, read by the driver after finished
	typ        string
	sizeCalled bool
	size       int64
	sizeErr    error
	started    bool
	data       []byte
	n2         int // ReadAt: n
	err        error
	sawEOF     bool
	closeErr   error
	closed     bool
	readCalls  int
	msg        proto.Message
	oversize   int
	early      []string // tasks not finished when this leaf reported completion
	optOuts    int      // opted out of a multiplexed stream above a still unfinished task (permitted)
	// lenient[task] > 0: the clones this consumer belongs to are multiplexed
	// ABOVE the buffer carrying that task (task -> error handler ->
	// CloneStream). Closing such a clone merely opts out of the shared stream;
	// only a consumer that sees the end of the stream is told "complete" (1).
	// With a retrying error handler between the clone and the consumer even a
	// successful result may come from the replacement buffer after the clone
	// opted out on an error, so nothing can be concluded (2).
	lenient  map[string]int
	panicked bool
	finished atomic.Bool
}

type exec struct {
	c         *run.Case
	w         *run.Worker
	d         *driver
	p         *plan
	mon       *srcMon
	hasSource bool

	leaves   map[string]*leafRun
	order    []*leafRun
	tasks    map[string]*taskRun
	sinks    []*sinkAccess
	handlers []*handler

	validNotes, invalidNotes atomic.Int64

	mu      sync.Mutex
	panics  []panicRec
	tainted atomic.Bool

	viol map[string]string
	vsig []string
}

func typeName(b buffer.Buffer) string {
	s := fmt.Sprintf("%T", b)
	s = strings.TrimPrefix(s, "*")
	return strings.TrimPrefix(s, "buffer.")
}

func (x *exec) violation(sig, format string, a ...any) {
	if _, ok := x.viol[sig]; ok {
		return
	}
	x.viol[sig] = fmt.Sprintf(format, a...)
	x.vsig = append(x.vsig, sig)
}

func (x *exec) recordPanic(where, op string, afterTaskClone bool, r any) {
	st := string(debug.Stack())
	val := fmt.Sprint(r)
	site := firstSUTFrame(st)
	// Candidate defect P1 (DESIGN.md §5): a clone of a buffer with a
	// background task is built without digest and source; any code path that
	// consults either dereferences the zero value.
	p1 := afterTaskClone &&
		(strings.Contains(val, "index out of range") || strings.Contains(val, "nil pointer dereference")) &&
		(strings.HasPrefix(site, "digest.Digest.") || strings.HasPrefix(site, "buffer.Source."))
	x.mu.Lock()
	x.panics = append(x.panics, panicRec{where: where, op: op, p1: p1, val: val, stack: st})
	x.mu.Unlock()
	x.tainted.Store(true)
}

// guard runs f and converts a panic into a record. It reports whether f
// completed normally.
func (x *exec) guard(where, op string, afterTaskClone bool, f func()) (ok bool) {
	defer func() {
		if r := recover(); r != nil {
			x.recordPanic(where, op, afterTaskClone, r)
			ok = false
		}
	}()
	f()
	return true
}

// ---- building the base buffer ----

func (x *exec) source() buffer.Source {
	if x.p.base.userProvided {
		return buffer.UserProvided
	}
	return buffer.BackendProvided(func(valid bool) {
		if valid {
			x.validNotes.Add(1)
		} else {
			x.invalidNotes.Add(1)
		}
	})
}

func (x *exec) buildBase() buffer.Buffer {
	b := x.p.base
	switch b.kind {
	case baseVSlice:
		return buffer.NewValidatedBufferFromByteSlice(append([]byte(nil), b.data...))
	case baseCASSlice:
		return buffer.NewCASBufferFromByteSlice(b.digest, append([]byte(nil), b.deliver...), x.source())
	case baseCASReader:
		x.hasSource = true
		fa := -1
		if b.fault == faultIO {
			fa = b.failAt
		}
		return buffer.NewCASBufferFromReader(b.digest, &readerSrc{d: x.d, mon: x.mon, deliver: b.deliver, pieces: append([]int(nil), b.chunks...), failAt: fa, failErr: errSrc, eofWithData: b.eofWithData}, x.source())
	case baseCASChunk:
		x.hasSource = true
		fa := -1
		if b.fault == faultIO {
			fa = b.failAt
		}
		return buffer.NewCASBufferFromChunkReader(b.digest, &chunkSrc{d: x.d, mon: x.mon, deliver: b.deliver, chunks: append([]int(nil), b.chunks...), failAt: fa, failErr: errSrc}, x.source())
	case baseReaderAt:
		x.hasSource = true
		return buffer.NewValidatedBufferFromReaderAt(&readerAtSrc{mon: x.mon, data: b.data}, int64(len(b.data)))
	case baseProto:
		return buffer.NewProtoBufferFromProto(b.msg, x.source())
	}
	return buffer.NewBufferFromError(errBase)
}

// ---- running the program ----

func appendTask(anc []*taskRun, t *taskRun) []*taskRun {
	return append(anc[:len(anc):len(anc)], t)
}

func (x *exec) runNode(n *node, b buffer.Buffer, anc []*taskRun) {
	switch n.op {
	case opLeaf:
		x.runLeaf(n, b, anc)
	case opStream:
		var b1, b2 buffer.Buffer
		if !x.guard(n.id, "CloneStream("+typeName(b)+")", n.afterTaskClone, func() { b1, b2 = b.CloneStream() }) {
			x.guard(n.id, "cleanup", true, b.Discard)
			return
		}
		// "It is not safe to use both buffers within same goroutine": the
		// second clone continues on a goroutine of its own.
		x.d.spawn(func() { x.runNode(n.kids[1], b2, anc) })
		x.runNode(n.kids[0], b1, anc)
	case opCopy:
		x.d.step(n.id + "/copy")
		var b1, b2 buffer.Buffer
		if !x.guard(n.id, "CloneCopy("+typeName(b)+")", n.afterTaskClone, func() { b1, b2 = b.CloneCopy(n.max) }) {
			x.guard(n.id, "cleanup", true, b.Discard)
			return
		}
		if n.par {
			x.d.spawn(func() { x.runNode(n.kids[1], b2, anc) })
			x.runNode(n.kids[0], b1, anc)
		} else {
			x.runNode(n.kids[0], b1, anc)
			x.runNode(n.kids[1], b2, anc)
		}
	case opTask:
		t := x.tasks[n.id]
		var nb buffer.Buffer
		var entered atomic.Bool
		x.d.enterTask()
		ok := x.guard(n.id, "WithTask("+typeName(b)+")", n.afterTaskClone, func() {
			nb = b.WithTask(func() error {
				entered.Store(true)
				defer x.d.exitTask()
				if n.gated {
					x.d.gate("T" + n.id)
				} else {
					x.d.step("T" + n.id)
				}
				t.done.Store(true)
				return t.err
			})
		})
		if !ok {
			if !entered.Load() {
				x.d.exitTask() // the task function was never started
			}
			x.guard(n.id, "cleanup", true, b.Discard)
			return
		}
		x.runNode(n.kids[0], nb, appendTask(anc, t))
	case opEH:
		h := &handler{kind: n.eh, id: n.id, replacement: x.p.base.data}
		x.mu.Lock()
		x.handlers = append(x.handlers, h)
		x.mu.Unlock()
		var nb buffer.Buffer
		if !x.guard(n.id, "WithErrorHandler("+typeName(b)+")", n.afterTaskClone, func() { nb = buffer.WithErrorHandler(b, h) }) {
			x.guard(n.id, "cleanup", true, b.Discard)
			return
		}
		x.runNode(n.kids[0], nb, anc)
	case opRepl:
		// The real local blob replicator: CloneStream, then WithTask(sink.Put(clone)).
		t := x.tasks[n.id]
		s := newSink(x, n, t)
		x.mu.Lock()
		x.sinks = append(x.sinks, s)
		x.mu.Unlock()
		var nb buffer.Buffer
		x.d.enterTask()
		ok := x.guard(n.id, "ReplicateSingle("+typeName(b)+")", n.afterTaskClone, func() {
			nb = replication.NewLocalBlobReplicator(&oneShotSource{b: b}, s).ReplicateSingle(context.Background(), x.p.base.digest)
		})
		if !ok {
			if !s.entered.Load() {
				x.d.exitTask()
			}
			return
		}
		x.runNode(n.kids[0], nb, appendTask(anc, t))
	}
}

// completed is called by a consumer at the moment the buffer reported
// completion to it.
func (lr *leafRun) completed(anc []*taskRun, full bool) {
	for _, t := range anc {
		if !t.done.Load() {
			if l := lr.lenient[t.id]; l == 2 || l == 1 && !full {
				lr.optOuts++
				continue
			}
			dup := false
			for _, e := range lr.early {
				dup = dup || e == t.id
			}
			if !dup {
				lr.early = append(lr.early, t.id)
			}
		}
	}
}

func (x *exec) runLeaf(n *node, b buffer.Buffer, anc []*taskRun) {
	lr := x.leaves[n.id]
	spec := n.leaf
	lr.typ = typeName(b)
	defer lr.finished.Store(true)
	gate := func(s string) {
		if x.d.controlled {
			x.d.gate(n.id + "/" + s)
		} else if spec.yield>>(uint(lr.readCalls)&63)&1 == 1 {
			runtime.Gosched()
		}
	}
	if spec.sizeFirst {
		gate("0size")
		lr.sizeCalled = x.guard(n.id, "GetSizeBytes("+lr.typ+")", n.afterTaskClone, func() { lr.size, lr.sizeErr = b.GetSizeBytes() })
	}
	op := methodNames[spec.method] + "(" + lr.typ + ")"
	ok := x.guard(n.id, op, n.afterTaskClone, func() {
		lr.started = true
		switch spec.method {
		case mByteSlice:
			gate("1call")
			lr.data, lr.err = b.ToByteSlice(spec.max)
			lr.completed(anc, lr.err == nil)
		case mIntoWriter:
			gate("1call")
			w := &limitWriter{failAt: spec.writerAt}
			lr.err = b.IntoWriter(w)
			lr.completed(anc, lr.err == nil)
			lr.data = w.buf
		case mReadAt:
			gate("1call")
			p := make([]byte, spec.plen)
			lr.n2, lr.err = b.ReadAt(p, spec.off)
			lr.completed(anc, lr.err == nil || lr.err == io.EOF)
			if lr.n2 >= 0 && lr.n2 <= len(p) {
				lr.data = p[:lr.n2]
			}
		case mProto:
			gate("1call")
			lr.msg, lr.err = b.ToProto(&remoteexecution.ActionResult{}, spec.max)
			lr.completed(anc, lr.err == nil)
		case mDiscard:
			gate("1call")
			b.Discard()
			lr.completed(anc, false)
		case mChunkReader:
			gate("1open")
			r := b.ToChunkReader(spec.off, spec.chunkMax)
			for i := 0; spec.reads < 0 || i < spec.reads; i++ {
				gate(fmt.Sprintf("2read#%03d", i))
				lr.readCalls++
				chunk, err := r.Read()
				if err == io.EOF {
					lr.sawEOF = true
					lr.completed(anc, true)
					break
				}
				if err != nil {
					lr.err = err
					break
				}
				if len(chunk) > spec.chunkMax {
					lr.oversize++
				}
				lr.data = append(lr.data, chunk...)
			}
			gate("3close")
			r.Close()
			lr.closed = true
			lr.completed(anc, lr.sawEOF)
		case mReader:
			gate("1open")
			r := b.ToReader()
			p := make([]byte, spec.chunkMax)
			stuck := 0
			for i := 0; spec.reads < 0 || i < spec.reads; i++ {
				gate(fmt.Sprintf("2read#%03d", i))
				lr.readCalls++
				nr, err := r.Read(p)
				lr.data = append(lr.data, p[:nr]...)
				if err == io.EOF {
					lr.sawEOF = true
					break
				}
				if err != nil {
					lr.err = err
					break
				}
				if nr == 0 {
					if stuck++; stuck > 1000 {
						lr.err = status.Error(codes.Unknown, "c15: reader made no progress in 1000 calls")
						break
					}
				} else {
					stuck = 0
				}
			}
			gate("3close")
			// For an io.ReadCloser the completion report of a buffer with a
			// task is Close (readerWithBackgroundTask decorates Close only;
			// that is where the task's error is returned).
			lr.closeErr = r.Close()
			lr.closed = true
			lr.completed(anc, lr.sawEOF)
		}
	})
	if !ok {
		lr.panicked = true
		// Try to release the buffer so that the other clones are not left
		// waiting for a consumer that died; failures here are consequences.
		func() {
			defer func() { recover() }()
			b.Discard()
		}()
	}
}

// ---- one scenario ----

type outcome struct {
	stalled   bool
	stallDump string
}

func newExec(c *run.Case, w *run.Worker, p *plan, d *driver) *exec {
	x := &exec{c: c, w: w, d: d, p: p, mon: &srcMon{}, leaves: map[string]*leafRun{}, tasks: map[string]*taskRun{}, viol: map[string]string{}}
	for _, l := range p.leaves() {
		lr := &leafRun{n: l, spec: l.leaf, acc: p.acceptFor(l), lenient: map[string]int{}}
		// task ... eh ... (stream|replicate) ... leaf
		path := p.pathTo(l)
		for i, t := range path {
			if t.op != opTask && t.op != opRepl {
				continue
			}
			sawEH := false
			for _, m := range path[i+1:] {
				switch {
				case m.op == opEH && m.eh == ehRetry && lr.lenient[t.id] > 0:
					lr.lenient[t.id] = 2
				case m.op == opEH:
					sawEH = true
				case sawEH && (m.op == opStream || m.op == opRepl) && lr.lenient[t.id] == 0:
					lr.lenient[t.id] = 1
				}
			}
		}
		x.leaves[l.id] = lr
		x.order = append(x.order, lr)
	}
	var rec func(n *node)
	rec = func(n *node) {
		if n.op == opTask || n.op == opRepl {
			t := &taskRun{id: n.id}
			if n.op == opTask && n.fail {
				t.err = status.Error(codes.Aborted, markTask+"-"+n.id+";")
			}
			x.tasks[n.id] = t
		}
		for _, k := range n.kids {
			rec(k)
		}
	}
	rec(p.root)
	return x
}

func (x *exec) run() outcome {
	initBaseline()
	x.d.spawn(func() {
		var b buffer.Buffer
		if x.guard("base", "construct", false, func() { b = x.buildBase() }) {
			x.runNode(x.p.root, b, nil)
		}
	})
	dump := x.d.run()
	return outcome{stalled: dump != "", stallDump: dump}
}

// ---- oracle ----

func (x *exec) site(lr *leafRun) string { return lr.typ + "." + methodNames[lr.spec.method] }

func short(b []byte) string {
	if len(b) > 24 {
		return fmt.Sprintf("%x…(%d bytes)", b[:24], len(b))
	}
	return fmt.Sprintf("%x", b)
}

func (x *exec) check(out outcome) {
	w, p := x.w, x.p
	base := p.base
	D, S := base.data, base.deliver

	// Panics first: they explain everything else.
	x.mu.Lock()
	panics := append([]panicRec(nil), x.panics...)
	x.mu.Unlock()
	for _, pr := range panics {
		if pr.op == "cleanup" {
			continue
		}
		if pr.p1 {
			w.Count("p1_panics", 1)
			x.violation("casBufferWithBackgroundTask.decorateBuffer:clone-has-no-digest-or-source-panic",
				"%s on a clone of a buffer with a background task panicked at node %s: %s\n%s", pr.op, pr.where, pr.val, pr.stack)
			continue
		}
		site := firstSUTFrame(pr.stack)
		if site == "" {
			site = "harness"
		}
		x.violation("panic:"+site, "%s panicked at node %s: %s\n%s", pr.op, pr.where, pr.val, pr.stack)
	}
	tainted := x.tainted.Load()

	if out.stalled {
		w.Count("stalls", 1)
		if tainted {
			w.Count("stalls_after_panic_suppressed", 1)
		} else {
			var pending []string
			for _, lr := range x.order {
				if !lr.finished.Load() {
					pending = append(pending, lr.n.id+":"+lr.spec.String())
				}
			}
			x.violation("stall:"+stallSites(out.stallDump),
				"no gate left to release, every goroutine parked, consumers still pending: %v\nreleased so far: %v\n%s", pending, x.d.trace, out.stallDump)
		}
	}

	var dataErrs []string // data errors seen by complete readers without an error handler on the path
	var dataErrLeaves []string
	for _, lr := range x.order {
		if !lr.finished.Load() {
			continue
		}
		w.Count("leaf_consumptions", 1)
		w.Count("leaf_"+methodNames[lr.spec.method], 1)
		site := x.site(lr)
		acc := lr.acc
		spec := lr.spec
		if lr.n.afterTaskClone {
			w.Count("leaves_on_clone_of_task_buffer", 1)
		}
		if lr.optOuts > 0 {
			w.Count("optout_above_unfinished_task", int64(lr.optOuts))
		}
		if len(lr.early) > 0 {
			x.violation(site+":completed-before-task-finished",
				"consumer %s (%s) was told the buffer is complete while task(s) %v had not finished", lr.n.id, spec, lr.early)
		}
		if lr.sizeCalled {
			w.Count("size_calls", 1)
			if lr.sizeErr == nil {
				if lr.size != int64(len(D)) {
					x.violation(lr.typ+".GetSizeBytes:wrong-size", "GetSizeBytes on %s = %d, object has %d bytes", lr.n.id, lr.size, len(D))
				}
			} else if !acc.matchErr(lr.sizeErr) {
				x.violation(lr.typ+".GetSizeBytes:unexpected-error", "GetSizeBytes on %s failed with %v; permitted %v", lr.n.id, lr.sizeErr, &acc)
			}
		}
		if lr.panicked || !lr.started {
			continue
		}
		if lr.oversize > 0 {
			w.Count("oversize_chunks", int64(lr.oversize))
		}

		// Classify what the consumer observed.
		unexpectedSuccess := func(what string) {
			cls := "unexpected-success"
			switch {
			case acc.taskErr:
				cls = "task-error-not-reported"
			case base.fault == faultCorrupt || base.fault == faultShort || base.fault == faultLong:
				cls = "invalid-data-accepted"
			}
			x.violation(site+":"+cls, "consumer %s (%s): %s; permitted %v", lr.n.id, spec, what, &acc)
		}
		unexpectedError := func(err error, extra ...errPred) {
			a2 := acc
			a2.preds = append(append([]errPred(nil), acc.preds...), extra...)
			if !a2.matchErr(err) {
				x.violation(site+":unexpected-error", "consumer %s (%s) failed with %v; permitted %v", lr.n.id, spec, err, &a2)
			}
		}
		noteErr := func(err error) {
			if err == nil {
				return
			}
			m := status.Convert(err).Message()
			switch {
			case strings.Contains(m, markTask), strings.Contains(m, markSink):
				w.Count("task_error_reported", 1)
			case strings.Contains(m, markSrc):
				w.Count("io_error_seen", 1)
			case strings.Contains(m, "Buffer "):
				w.Count("validation_error_seen", 1)
			}
			if !acc.hasEH && (strings.HasPrefix(m, markSrc) || (strings.HasPrefix(m, "Buffer ") && !strings.Contains(m, "permitted"))) {
				dataErrs = append(dataErrs, status.Code(err).String()+": "+m)
				dataErrLeaves = append(dataErrLeaves, lr.n.id)
			}
		}
		prefixOK := func(got []byte, off int64) bool {
			if off > int64(len(S)) && off > int64(len(D)) {
				return len(got) == 0
			}
			okS := off <= int64(len(S)) && bytes.HasPrefix(S[off:], got)
			okD := off <= int64(len(D)) && bytes.HasPrefix(D[off:], got)
			return okS || okD
		}

		switch spec.method {
		case mByteSlice:
			noteErr(lr.err)
			if lr.err == nil {
				w.Count("full_reads_ok", 1)
				if spec.max < len(D) {
					x.violation(site+":size-limit-ignored", "ToByteSlice(max=%d) returned %d bytes", spec.max, len(lr.data))
				} else if !bytes.Equal(lr.data, D) {
					x.violation(site+":wrong-bytes", "consumer %s got %s, object is %s", lr.n.id, short(lr.data), short(D))
				} else if !acc.success {
					unexpectedSuccess("ToByteSlice succeeded")
				}
			} else if spec.max < len(D) {
				unexpectedError(lr.err, sizeLimitPred)
			} else {
				unexpectedError(lr.err)
			}
		case mProto:
			noteErr(lr.err)
			ref := &remoteexecution.ActionResult{}
			refErr := proto.Unmarshal(D, ref)
			if lr.err == nil {
				w.Count("full_reads_ok", 1)
				if spec.max < len(D) {
					x.violation(site+":size-limit-ignored", "ToProto(max=%d) succeeded on %d bytes", spec.max, len(D))
				} else if refErr != nil || lr.msg == nil || !proto.Equal(ref, lr.msg) {
					x.violation(site+":wrong-bytes", "consumer %s: ToProto returned %v, reference decoding gives %v (err %v)", lr.n.id, lr.msg, ref, refErr)
				} else if !acc.success {
					unexpectedSuccess("ToProto succeeded")
				}
			} else {
				extra := []errPred{}
				if spec.max < len(D) {
					extra = append(extra, sizeLimitPred)
				}
				if refErr != nil {
					extra = append(extra, unmarshalPred)
				}
				unexpectedError(lr.err, extra...)
			}
		case mIntoWriter:
			noteErr(lr.err)
			if lr.err == nil {
				w.Count("full_reads_ok", 1)
				if !bytes.Equal(lr.data, D) {
					x.violation(site+":wrong-bytes", "consumer %s: IntoWriter wrote %s, object is %s", lr.n.id, short(lr.data), short(D))
				} else if !acc.success {
					unexpectedSuccess("IntoWriter succeeded")
				}
			} else {
				if !prefixOK(lr.data, 0) {
					x.violation(site+":partial-not-a-prefix", "consumer %s: IntoWriter wrote %s before failing with %v; source delivers %s", lr.n.id, short(lr.data), lr.err, short(S))
				}
				if spec.writerAt >= 0 {
					unexpectedError(lr.err, writerPred)
				} else {
					unexpectedError(lr.err)
				}
			}
		case mReadAt:
			noteErr(lr.err)
			wantN := 0
			if spec.off < int64(len(D)) {
				wantN = len(D) - int(spec.off)
				if wantN > spec.plen {
					wantN = spec.plen
				}
			}
			switch {
			case lr.err == nil || lr.err == io.EOF:
				// io.EOF is the io.ReaderAt way of saying "fewer than len(p)
				// bytes"; casBufferWithBackgroundTask.ReadAt returns it in
				// preference to the task's error. Documented, not flagged.
				w.Count("full_reads_ok", 1)
				short1 := wantN < spec.plen
				if lr.err == nil && short1 {
					x.violation(site+":short-read-without-eof", "ReadAt(len=%d,off=%d) on %d bytes returned n=%d, nil", spec.plen, spec.off, len(D), lr.n2)
				} else if lr.err == io.EOF && !short1 && spec.plen > 0 {
					x.violation(site+":unexpected-error", "ReadAt(len=%d,off=%d) on %d bytes returned EOF", spec.plen, spec.off, len(D))
				} else if lr.n2 != wantN || !bytes.Equal(lr.data, D[min64(spec.off, int64(len(D))):min64(spec.off, int64(len(D)))+int64(wantN)]) {
					x.violation(site+":wrong-bytes", "consumer %s: ReadAt(len=%d,off=%d) gave n=%d %s; object is %s", lr.n.id, spec.plen, spec.off, lr.n2, short(lr.data), short(D))
				} else if !acc.success {
					if lr.err == io.EOF && acc.taskErr {
						w.Count("readat_eof_in_preference_to_task_error", 1)
					} else {
						unexpectedSuccess("ReadAt succeeded")
					}
				}
			default:
				unexpectedError(lr.err)
			}
		case mChunkReader, mReader:
			noteErr(lr.err)
			noteErr(lr.closeErr)
			off := int64(0)
			if spec.method == mChunkReader {
				off = spec.off
			}
			switch {
			case lr.sawEOF && lr.closeErr == nil:
				w.Count("full_reads_ok", 1)
				if off > int64(len(D)) || !bytes.Equal(lr.data, D[off:]) {
					x.violation(site+":wrong-bytes", "consumer %s read %s up to EOF, object from offset %d is %s", lr.n.id, short(lr.data), off, short(D[min64(off, int64(len(D))):]))
				} else if !acc.success {
					unexpectedSuccess("stream read to EOF, closed without error")
				}
			case lr.sawEOF:
				// complete data, error at Close (reader with a task)
				if !bytes.Equal(lr.data, D[min64(off, int64(len(D))):]) {
					x.violation(site+":wrong-bytes", "consumer %s read %s up to EOF", lr.n.id, short(lr.data))
				}
				unexpectedError(lr.closeErr)
			case lr.err != nil:
				if !prefixOK(lr.data, off) {
					x.violation(site+":partial-not-a-prefix", "consumer %s read %s before %v; source delivers %s", lr.n.id, short(lr.data), lr.err, short(S))
				}
				unexpectedError(lr.err)
				if lr.closeErr != nil {
					unexpectedError(lr.closeErr)
				}
			default:
				// closed early
				w.Count("early_closes", 1)
				if !prefixOK(lr.data, off) {
					x.violation(site+":partial-not-a-prefix", "consumer %s read %s and closed early; source delivers %s", lr.n.id, short(lr.data), short(S))
				}
				if lr.closeErr != nil {
					unexpectedError(lr.closeErr)
				}
			}
		case mDiscard:
			w.Count("discards", 1)
		}
	}

	// "... or the same error": complete readers that see a data error see the
	// same one.
	if len(dataErrs) > 1 {
		w.Count("error_agreement_checks", 1)
		for i := 1; i < len(dataErrs); i++ {
			if dataErrs[i] != dataErrs[0] {
				x.violation("clones:consumers-see-different-errors", "consumer %s saw %q, consumer %s saw %q", dataErrLeaves[0], dataErrs[0], dataErrLeaves[i], dataErrs[i])
			}
		}
	}

	// Replication sinks: what arrived there is the object.
	for _, s := range x.sinks {
		if got, ok := s.store.Peek(base.digest); ok {
			w.Count("sink_objects", 1)
			if !bytes.Equal(got, D) {
				x.violation("localBlobReplicator.ReplicateSingle:sink-received-wrong-bytes", "sink of %s stored %s, object is %s", s.n.id, short(got), short(D))
			}
		}
	}

	// The underlying source: closed exactly once, not used afterwards, one
	// reader at a time.
	if x.hasSource && !tainted && !out.stalled {
		kind := baseNames[base.kind]
		switch n := x.mon.closes.Load(); {
		case n == 0:
			x.violation("source("+kind+"):never-closed", "every consumer finished, the source was closed 0 times (%d reads)", x.mon.reads.Load())
		case n > 1:
			x.violation("source("+kind+"):closed-more-than-once", "the source was closed %d times", n)
		default:
			w.Count("source_closed_once", 1)
		}
		if n := x.mon.readAfterClose.Load(); n > 0 {
			x.violation("source("+kind+"):read-after-close", "%d reads after Close", n)
		}
		if n := x.mon.concurrent.Load(); n > 0 {
			x.violation("source("+kind+"):concurrent-reads", "%d overlapping Read calls on the single underlying source", n)
		}
	}

	// Coverage facts.
	for s, n := range x.d.parkSites {
		switch {
		case strings.Contains(s, "multiplexedChunkReader"):
			w.Count("parked_in_multiplexer", int64(n))
		case strings.Contains(s, "casClonedBuffer"):
			w.Count("parked_waiting_for_other_clones_to_declare", int64(n))
		case strings.Contains(s, "WithBackgroundTask"):
			w.Count("parked_waiting_for_task", int64(n))
		}
	}
	w.Count("decisions", int64(x.d.decisions))
	w.Count("decisions_with_choice", int64(x.d.choicePoints))
	w.Count("goroutine_dumps", int64(x.d.dumps))
	for _, g := range x.d.trace {
		if strings.HasPrefix(g, "T") || strings.HasSuffix(g, "/finish") {
			w.Count("task_gate_releases", 1)
		}
	}
	for _, h := range x.handlers {
		h.mu.Lock()
		w.Count("error_handler_invocations", int64(h.onError))
		if h.used {
			w.Count("error_handler_retries", 1)
		}
		h.mu.Unlock()
	}

	// Emit.
	sort.Strings(x.vsig)
	if len(x.vsig) > 0 {
		x.c.Logf("plan: %s", p)
		x.c.Logf("released gates: %v", x.d.trace)
		for _, lr := range x.order {
			x.c.Logf("  %s", x.describe(lr))
		}
	}
	for _, sig := range x.vsig {
		x.c.Violation(sig, "%s", x.viol[sig])
	}
}

func (x *exec) describe(lr *leafRun) string {
	if !lr.finished.Load() {
		return fmt.Sprintf("%s %s: NOT FINISHED", lr.n.id, lr.spec)
	}
	s := fmt.Sprintf("%s %s on %s: data=%s n=%d err=%v eof=%v closeErr=%v closed=%v", lr.n.id, lr.spec, lr.typ, gen.Hex8(lr.data), lr.n2, lr.err, lr.sawEOF, lr.closeErr, lr.closed)
	if lr.sizeCalled {
		s += fmt.Sprintf(" size=%d,%v", lr.size, lr.sizeErr)
	}
	if lr.panicked {
		s += " PANICKED"
	}
	return s + " permitted=" + lr.acc.String()
}

func min64(a, b int64) int64 {
	if a < b {
		return a
	}
	return b
}
