package main

// Programs: a base buffer kind + a tree of CloneStream / CloneCopy / WithTask /
// WithErrorHandler / replicate nodes with a consumption script at every leaf,
// their generators, and the reference semantics (which outcomes the property
// permits at a leaf).

import (
	"fmt"
	"strings"

	remoteexecution "github.com/bazelbuild/remote-apis/build/bazel/remote/execution/v2"
	"github.com/buildbarn/bb-storage/pkg/digest"
	"google.golang.org/grpc/codes"
	"google.golang.org/grpc/status"
	"google.golang.org/protobuf/proto"

	"verif/lib/gen"
)

// ---- base buffers ----

const (
	baseVSlice = iota
	baseCASSlice
	baseCASReader
	baseCASChunk
	baseReaderAt
	baseProto
	baseError
	numBases
)

var baseNames = []string{"validatedSlice", "casSlice", "casReader", "casChunk", "validatedReaderAt", "proto", "error"}

const (
	faultNone = iota
	faultIO
	faultCorrupt
	faultShort
	faultLong
)

var faultNames = []string{"none", "io", "corrupt", "short", "long"}

type baseSpec struct {
	kind         int
	data         []byte // D: the object the digest names
	deliver      []byte // S: what the source really delivers
	chunks       []int
	fault        int
	failAt       int
	eofWithData  bool
	userProvided bool
	msg          proto.Message // base kind proto
	digest       digest.Digest
}

func (b *baseSpec) streamBacked() bool { return b.kind == baseCASReader || b.kind == baseCASChunk }

func (b *baseSpec) String() string {
	s := fmt.Sprintf("%s[%s", baseNames[b.kind], gen.Hex8(b.data))
	if b.kind == baseCASSlice || b.streamBacked() {
		s += " fault=" + faultNames[b.fault]
		if b.fault == faultIO {
			s += fmt.Sprintf("@%d", b.failAt)
		}
		if b.streamBacked() {
			s += fmt.Sprintf(" chunks=%v", b.chunks)
		}
		if b.userProvided {
			s += " user"
		}
	}
	return s + "]"
}

var errSrc = status.Error(codes.Unavailable, markSrc)
var errBase = status.Error(codes.NotFound, markBase)

// ---- program tree ----

type opKind int

const (
	opLeaf opKind = iota
	opStream
	opCopy
	opTask
	opEH
	opRepl
)

type node struct {
	op   opKind
	id   string
	kids []*node

	fail, gated bool // opTask; gated also for opRepl
	eh          int  // opEH
	sink        int  // opRepl
	max         int  // opCopy
	par         bool // opCopy: second copy continues on its own goroutine

	leaf *leafSpec

	// Derived: an (asynchronous-capable) task node precedes a clone node on
	// the path to this node, i.e. this buffer descends from a clone of a
	// buffer with a task.
	afterTaskClone bool
}

const (
	mByteSlice = iota
	mIntoWriter
	mReadAt
	mProto
	mChunkReader
	mReader
	mDiscard
	numMethods
)

var methodNames = []string{"ToByteSlice", "IntoWriter", "ReadAt", "ToProto", "ToChunkReader", "ToReader", "Discard"}

type leafSpec struct {
	method    int
	sizeFirst bool
	max       int   // ToByteSlice, ToProto
	off       int64 // ReadAt, ToChunkReader
	plen      int   // ReadAt
	chunkMax  int   // ToChunkReader: maximum chunk size; ToReader: read buffer size
	reads     int   // ToChunkReader/ToReader: Read calls before Close; <0: until EOF or error
	writerAt  int   // IntoWriter: writer fails after that many bytes; <0: never
	yield     uint64
}

func (l *leafSpec) String() string {
	s := ""
	if l.sizeFirst {
		s = "size;"
	}
	switch l.method {
	case mByteSlice, mProto:
		s += fmt.Sprintf("%s(max=%d)", methodNames[l.method], l.max)
	case mIntoWriter:
		s += "IntoWriter"
		if l.writerAt >= 0 {
			s += fmt.Sprintf("(failAt=%d)", l.writerAt)
		}
	case mReadAt:
		s += fmt.Sprintf("ReadAt(len=%d,off=%d)", l.plen, l.off)
	case mChunkReader:
		s += fmt.Sprintf("ToChunkReader(off=%d,max=%d)", l.off, l.chunkMax)
		if l.reads >= 0 {
			s += fmt.Sprintf(".read*%d.close", l.reads)
		}
	case mReader:
		s += fmt.Sprintf("ToReader(buf=%d)", l.chunkMax)
		if l.reads >= 0 {
			s += fmt.Sprintf(".read*%d.close", l.reads)
		}
	case mDiscard:
		s += "Discard"
	}
	return s
}

func (n *node) String() string {
	switch n.op {
	case opLeaf:
		return n.leaf.String()
	case opStream:
		return "stream{" + n.kids[0].String() + " | " + n.kids[1].String() + "}"
	case opCopy:
		p := ""
		if n.par {
			p = ",par"
		}
		return fmt.Sprintf("copy(%d%s){", n.max, p) + n.kids[0].String() + " | " + n.kids[1].String() + "}"
	case opTask:
		return "task(" + taskLabel(n) + ")." + n.kids[0].String()
	case opEH:
		return "eh(" + []string{"pass", "xlate", "retry"}[n.eh] + ")." + n.kids[0].String()
	case opRepl:
		g := ""
		if n.gated {
			g = ",gated"
		}
		return "replicate(" + []string{"ok", "failEarly", "failLate"}[n.sink] + g + ")." + n.kids[0].String()
	}
	return "?"
}

func taskLabel(n *node) string {
	s := "ok"
	if n.fail {
		s = "fail"
	}
	if n.gated {
		s += ",gated"
	}
	return s
}

// shape is the program with the leaf parameters stripped (for Distinct keys).
func (n *node) shape() string {
	switch n.op {
	case opLeaf:
		return methodNames[n.leaf.method][:3]
	case opStream:
		return "s{" + n.kids[0].shape() + "|" + n.kids[1].shape() + "}"
	case opCopy:
		return "c{" + n.kids[0].shape() + "|" + n.kids[1].shape() + "}"
	case opTask:
		return "t(" + taskLabel(n) + ")" + n.kids[0].shape()
	case opEH:
		return fmt.Sprintf("e%d", n.eh) + n.kids[0].shape()
	case opRepl:
		return fmt.Sprintf("r%d%v", n.sink, n.gated) + n.kids[0].shape()
	}
	return "?"
}

type plan struct {
	base *baseSpec
	root *node
}

func (p *plan) String() string { return p.base.String() + " -> " + p.root.String() }

// finalize assigns path ids and derived flags.
func (p *plan) finalize() {
	var rec func(n *node, id string, sawTask, afterTaskClone bool)
	rec = func(n *node, id string, sawTask, afterTaskClone bool) {
		n.id = id
		if n.op == opRepl && sawTask {
			// replicate = CloneStream + WithTask on one of the clones
			afterTaskClone = true
		}
		n.afterTaskClone = afterTaskClone
		switch n.op {
		case opTask, opRepl:
			sawTask = true
		case opStream, opCopy:
			if sawTask {
				afterTaskClone = true
			}
		}
		for i, k := range n.kids {
			rec(k, fmt.Sprintf("%s%d", id, i), sawTask, afterTaskClone)
		}
	}
	rec(p.root, "n", false, false)
}

func (p *plan) leaves() []*node {
	var out []*node
	var rec func(n *node)
	rec = func(n *node) {
		if n.op == opLeaf {
			out = append(out, n)
		}
		for _, k := range n.kids {
			rec(k)
		}
	}
	rec(p.root)
	return out
}

// pathTo returns the nodes from the root to (excluding) the target.
func (p *plan) pathTo(target *node) []*node {
	var path []*node
	var rec func(n *node) bool
	rec = func(n *node) bool {
		if n == target {
			return true
		}
		for _, k := range n.kids {
			if rec(k) {
				path = append([]*node{n}, path...)
				return true
			}
		}
		return false
	}
	rec(p.root)
	return path
}

// ---- reference semantics ----

type errPred struct {
	marker string
	codes  []codes.Code
}

// accept is the set of outcomes the property permits for a consumer that
// reads the whole object through a given path of the program.
type accept struct {
	success bool
	preds   []errPred
	xlated  bool // a translating error handler on the path may have rewrapped any error
	hasEH   bool
	taskErr bool // a failing task on the path (its error is in preds)
}

func (a *accept) matchErr(err error) bool {
	if err == nil {
		return false
	}
	st := status.Convert(err)
	for _, p := range a.preds {
		if !strings.Contains(st.Message(), p.marker) {
			continue
		}
		if a.xlated && st.Code() == codes.DataLoss {
			return true
		}
		for _, c := range p.codes {
			if c == st.Code() {
				return true
			}
		}
	}
	return false
}

func (a *accept) String() string {
	var parts []string
	if a.success {
		parts = append(parts, "success")
	}
	for _, p := range a.preds {
		parts = append(parts, fmt.Sprintf("err(%v~%q)", p.codes, p.marker))
	}
	if a.xlated {
		parts = append(parts, "+translated")
	}
	return "{" + strings.Join(parts, ", ") + "}"
}

func (b *baseSpec) validationPred() errPred {
	c := codes.Internal
	if b.userProvided {
		c = codes.InvalidArgument
	}
	return errPred{marker: "Buffer ", codes: []codes.Code{c}}
}

// baseAccept: what the undecorated base yields.
func (b *baseSpec) baseAccept() accept {
	switch b.kind {
	case baseError:
		return accept{preds: []errPred{{marker: markBase, codes: []codes.Code{codes.NotFound}}}}
	case baseCASSlice, baseCASReader, baseCASChunk:
		switch b.fault {
		case faultIO:
			return accept{preds: []errPred{{marker: markSrc, codes: []codes.Code{codes.Unavailable}}}}
		case faultCorrupt, faultShort, faultLong:
			return accept{preds: []errPred{b.validationPred()}}
		}
	}
	return accept{success: true}
}

// step applies one program node to the permitted outcomes.
//
// The statement is deliberately not over-read: where it is silent (which of
// two failing tasks is reported; whether a data error or a task error wins;
// whether a translating handler saw a particular error) every candidate is
// accepted.
func (a accept) step(n *node, dataLen int) accept {
	out := accept{success: a.success, preds: append([]errPred(nil), a.preds...), xlated: a.xlated, hasEH: a.hasEH, taskErr: a.taskErr}
	switch n.op {
	case opTask:
		if n.fail {
			out.preds = append(out.preds, errPred{marker: markTask + "-" + n.id + ";", codes: []codes.Code{codes.Aborted}})
			out.success = false
			out.taskErr = true
		}
	case opRepl:
		if n.sink != sinkOK {
			// util.StatusWrap keeps the code and prefixes the message.
			out.preds = append(out.preds, errPred{marker: markSink, codes: []codes.Code{codes.Unavailable}})
			out.success = false
			out.taskErr = true
		}
	case opEH:
		out.hasEH = true
		switch n.eh {
		case ehXlate:
			out.xlated = true
		case ehRetry:
			if len(out.preds) > 0 {
				out.success = true
			}
		}
	case opCopy:
		if n.max < dataLen {
			out.preds = append(out.preds, sizeLimitPred)
		}
	}
	return out
}

var sizeLimitPred = errPred{marker: "bytes is permitted", codes: []codes.Code{codes.InvalidArgument}}
var unmarshalPred = errPred{marker: "Failed to unmarshal message", codes: []codes.Code{codes.InvalidArgument}}
var writerPred = errPred{marker: markWriter, codes: []codes.Code{codes.ResourceExhausted}}

func (p *plan) acceptFor(leaf *node) accept {
	a := p.base.baseAccept()
	for _, n := range p.pathTo(leaf) {
		a = a.step(n, len(p.base.data))
	}
	return a
}

// ---- generators ----

func sampleProtoBytes(r *gen.Rng, n int) ([]byte, proto.Message) {
	m := &remoteexecution.ActionResult{ExitCode: int32(r.Intn(200)), StdoutRaw: r.Bytes(n)}
	b, err := proto.Marshal(m)
	if err != nil {
		panic(err)
	}
	return b, m
}

func genBase(r *gen.Rng, kind int, big bool) *baseSpec {
	b := &baseSpec{kind: kind, failAt: -1, userProvided: r.Bool()}
	size := r.Pick(0, 1, 2, 3, 5, 8, 13, 21, 40, 64, 100)
	if big {
		size = r.Range(60000, 140000)
	}
	if kind == baseProto || r.Chance(1, 3) {
		b.data, b.msg = sampleProtoBytes(r, size)
	} else {
		b.data = r.Bytes(size)
	}
	b.deliver = b.data
	b.digest = gen.SHA256Digest("c15", b.data)
	if kind == baseCASSlice || b.streamBacked() {
		switch r.Intn(8) {
		case 0, 1:
			if b.streamBacked() {
				b.fault = faultIO
				b.failAt = r.Range(0, len(b.data))
			}
		case 2:
			if len(b.data) > 0 {
				b.fault = faultCorrupt
				b.deliver = append([]byte(nil), b.data...)
				b.deliver[r.Intn(len(b.deliver))] ^= byte(1 << uint(r.Intn(8)))
			}
		case 3:
			if r.Bool() && len(b.data) > 0 {
				b.fault = faultShort
				b.deliver = b.data[:r.Intn(len(b.data))]
			} else {
				b.fault = faultLong
				b.deliver = append(append([]byte(nil), b.data...), r.Bytes(r.Range(1, 4))...)
			}
		}
	}
	if b.streamBacked() {
		if big {
			b.chunks = []int{r.Range(1, len(b.deliver)), 70000}
		} else {
			b.chunks = r.Chunking(len(b.deliver), b.kind == baseCASChunk)
		}
		b.eofWithData = r.Chance(1, 4)
	}
	return b
}

func genLeaf(r *gen.Rng, dataLen int, weights []int) *leafSpec {
	l := &leafSpec{writerAt: -1, reads: -1, max: 1 << 20, chunkMax: 1 << 16, yield: r.Uint64()}
	total := 0
	for _, w := range weights {
		total += w
	}
	k := r.Intn(total)
	for m, w := range weights {
		if k < w {
			l.method = m
			break
		}
		k -= w
	}
	l.sizeFirst = r.Chance(1, 3)
	switch l.method {
	case mByteSlice, mProto:
		if r.Chance(1, 6) && dataLen > 0 {
			l.max = r.Intn(dataLen)
		} else if r.Chance(1, 4) {
			l.max = dataLen
		}
	case mIntoWriter:
		if r.Chance(1, 3) {
			l.writerAt = r.Range(0, dataLen)
		}
	case mReadAt:
		l.off = int64(r.Range(0, dataLen+1))
		l.plen = r.Range(0, dataLen+2)
		if dataLen > 1000 {
			l.plen = r.Range(0, 300)
		}
	case mChunkReader:
		l.chunkMax = r.Pick(1, 2, 3, 7, 64, 1<<16)
		if dataLen > 1000 && l.chunkMax < 64 {
			l.chunkMax = 1 << 12
		}
		if r.Chance(1, 3) {
			l.off = int64(r.Range(0, dataLen))
		}
		if r.Chance(2, 5) {
			l.reads = r.Range(0, 4)
		}
	case mReader:
		l.chunkMax = r.Pick(1, 2, 5, 16, 4096)
		if dataLen > 1000 && l.chunkMax < 16 {
			l.chunkMax = 4096
		}
		if r.Chance(2, 5) {
			l.reads = r.Range(0, 4)
		}
	}
	return l
}

var (
	schedWeights = []int{12, 10, 10, 3, 35, 15, 12}
	progWeights  = []int{20, 12, 12, 8, 18, 14, 10}
)

func genDecorator(r *gen.Rng, kid *node, allowRepl bool) *node {
	switch k := r.Intn(10); {
	case k < 5:
		return &node{op: opTask, fail: r.Chance(1, 3), gated: r.Chance(1, 2), kids: []*node{kid}}
	case k < 8 || !allowRepl:
		return &node{op: opEH, eh: r.Intn(3), kids: []*node{kid}}
	default:
		return &node{op: opRepl, sink: r.Pick(sinkOK, sinkOK, sinkFailEarly, sinkFailLate), gated: r.Bool(), kids: []*node{kid}}
	}
}

// genSchedTree: 2-4 stream clones of one buffer (random clone shape), a
// consumption script per clone, now and then a decorator or a CloneCopy on a
// branch.
func genSchedTree(r *gen.Rng, dataLen, nLeaves int, decorate bool) *node {
	root := &node{op: opLeaf}
	leaves := []*node{root}
	for len(leaves) < nLeaves {
		i := r.Intn(len(leaves))
		n := leaves[i]
		n.op = opStream
		n.kids = []*node{{op: opLeaf}, {op: opLeaf}}
		leaves[i] = n.kids[0]
		leaves = append(leaves, n.kids[1])
	}
	for _, l := range leaves {
		l.leaf = genLeaf(r, dataLen, schedWeights)
		if decorate && r.Chance(1, 6) {
			// Insert a decorator (or a copy) between the clone and its consumer.
			inner := &node{op: opLeaf, leaf: l.leaf}
			var d *node
			if r.Chance(1, 4) {
				d = &node{op: opCopy, max: 1 << 20, par: r.Bool(), kids: []*node{inner, {op: opLeaf, leaf: genLeaf(r, dataLen, schedWeights)}}}
			} else {
				d = genDecorator(r, inner, true)
			}
			*l = *d
		}
	}
	if decorate && r.Chance(1, 8) {
		return genDecorator(r, root, true)
	}
	return root
}

// genRandomTree: heterogeneous program of bounded depth.
func genRandomTree(r *gen.Rng, dataLen, depth int, budget *int) *node {
	if depth == 0 || *budget <= 1 || r.Chance(1, 4) {
		return &node{op: opLeaf, leaf: genLeaf(r, dataLen, progWeights)}
	}
	switch k := r.Intn(10); {
	case k < 3:
		*budget--
		return &node{op: opStream, kids: []*node{genRandomTree(r, dataLen, depth-1, budget), genRandomTree(r, dataLen, depth-1, budget)}}
	case k < 5:
		*budget--
		max := 1 << 20
		if r.Chance(1, 8) && dataLen > 0 {
			max = r.Intn(dataLen)
		}
		return &node{op: opCopy, max: max, par: r.Bool(), kids: []*node{genRandomTree(r, dataLen, depth-1, budget), genRandomTree(r, dataLen, depth-1, budget)}}
	default:
		return genDecorator(r, genRandomTree(r, dataLen, depth-1, budget), true)
	}
}

// ---- systematic programs: every op sequence up to a depth, the same op
// applied to every buffer of a level, every base, every consumption method.

type sysOp struct {
	name string
	mk   func(kids []*node) *node
}

var sysOps = []sysOp{
	{"stream", func(k []*node) *node { return &node{op: opStream, kids: k} }},
	{"copy", func(k []*node) *node { return &node{op: opCopy, max: 1 << 20, kids: k} }},
	{"taskOK", func(k []*node) *node { return &node{op: opTask, kids: k[:1]} }},
	{"taskErr", func(k []*node) *node { return &node{op: opTask, fail: true, kids: k[:1]} }},
	{"taskGated", func(k []*node) *node { return &node{op: opTask, gated: true, kids: k[:1]} }},
	{"eh", func(k []*node) *node { return &node{op: opEH, eh: ehPass, kids: k[:1]} }},
	{"replicate", func(k []*node) *node { return &node{op: opRepl, sink: sinkOK, gated: true, kids: k[:1]} }},
}

func sysArity(op int) int {
	if op < 2 {
		return 2
	}
	return 1
}

// sysSequences lists all op sequences of length 1..depth.
func sysSequences(depth int) [][]int {
	var out [][]int
	var rec func(prefix []int)
	rec = func(prefix []int) {
		if len(prefix) > 0 {
			out = append(out, append([]int(nil), prefix...))
		}
		if len(prefix) == depth {
			return
		}
		for o := range sysOps {
			rec(append(prefix, o))
		}
	}
	rec(nil)
	return out
}

func buildSysTree(seq []int, leaf func() *leafSpec) *node {
	if len(seq) == 0 {
		return &node{op: opLeaf, leaf: leaf()}
	}
	kids := make([]*node, sysArity(seq[0]))
	for i := range kids {
		kids[i] = buildSysTree(seq[1:], leaf)
	}
	return sysOps[seq[0]].mk(kids)
}

func seqName(seq []int) string {
	var s []string
	for _, o := range seq {
		s = append(s, sysOps[o].name)
	}
	return strings.Join(s, ",")
}

// sysBases: the seven base kinds plus three faulty stream variants.
const numSysBases = 10

func sysBase(i int) *baseSpec {
	r := gen.New(0xc15, uint64(i))
	data, msg := sampleProtoBytes(r, 23)
	b := &baseSpec{data: data, deliver: data, msg: msg, failAt: -1, digest: gen.SHA256Digest("c15", data)}
	switch {
	case i < numBases:
		b.kind = i
	case i == 7:
		b.kind, b.fault, b.failAt = baseCASReader, faultIO, 9
	case i == 8:
		b.kind, b.fault, b.failAt = baseCASChunk, faultIO, 5
	case i == 9:
		b.kind, b.fault = baseCASChunk, faultCorrupt
		b.deliver = append([]byte(nil), data...)
		b.deliver[7] ^= 0x10
	}
	if b.streamBacked() {
		b.chunks = []int{5, 0, 11, len(data)}
	}
	return b
}

const numSysLeaves = 8

func sysLeaf(i, dataLen int) *leafSpec {
	l := &leafSpec{sizeFirst: true, writerAt: -1, reads: -1, max: 1 << 20, chunkMax: 7}
	switch i {
	case 0:
		l.method = mByteSlice
	case 1:
		l.method = mIntoWriter
	case 2:
		l.method, l.off, l.plen = mReadAt, 3, 8
	case 3:
		l.method = mProto
	case 4:
		l.method = mChunkReader
	case 5:
		l.method, l.chunkMax = mReader, 6
	case 6:
		l.method = mDiscard
	case 7:
		l.method, l.reads, l.off = mChunkReader, 1, 2
	}
	return l
}
