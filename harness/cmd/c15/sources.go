package main

// Scripted, monitored data sources and sinks: chunk reader, io.ReadCloser,
// ReadAtCloser, io.Writer, error handlers, and the source/sink BlobAccess pair
// put around the real replication.NewLocalBlobReplicator.

import (
	"context"
	"fmt"
	"io"
	"sync"
	"sync/atomic"

	"github.com/buildbarn/bb-storage/pkg/blobstore"
	"github.com/buildbarn/bb-storage/pkg/blobstore/buffer"
	"github.com/buildbarn/bb-storage/pkg/digest"
	"google.golang.org/grpc/codes"
	"google.golang.org/grpc/status"

	"verif/lib/model"
)

const (
	markSrc    = "c15-src-err"
	markTask   = "c15-task-err"
	markSink   = "c15-sink-err"
	markWriter = "c15-writer-err"
	markBase   = "c15-base-err"
)

// srcMon is the "closed exactly once, never used afterwards, never used by
// two goroutines at once" monitor of an underlying source.
type srcMon struct {
	closes         atomic.Int64
	reads          atomic.Int64
	inflight       atomic.Int64
	readAfterClose atomic.Int64
	concurrent     atomic.Int64
}

func (m *srcMon) enter() {
	if m.closes.Load() > 0 {
		m.readAfterClose.Add(1)
	}
	if m.inflight.Add(1) > 1 {
		m.concurrent.Add(1)
	}
}
func (m *srcMon) exit() { m.inflight.Add(-1) }

// chunkSrc is a scripted buffer.ChunkReader.
type chunkSrc struct {
	d   *driver
	mon *srcMon

	mu      sync.Mutex
	deliver []byte
	chunks  []int
	failAt  int // <0: never
	failErr error
	off     int
}

func (s *chunkSrc) Read() ([]byte, error) {
	s.mon.enter()
	defer s.mon.exit()
	k := s.mon.reads.Add(1)
	if s.d.srcGate {
		s.d.gate(fmt.Sprintf("S/read#%03d", k))
	}
	s.mu.Lock()
	defer s.mu.Unlock()
	if s.failAt >= 0 && s.off >= s.failAt {
		return nil, s.failErr
	}
	if s.off >= len(s.deliver) {
		if len(s.chunks) > 0 { // trailing empty chunks
			s.chunks = s.chunks[1:]
			return []byte{}, nil
		}
		return nil, io.EOF
	}
	n := len(s.deliver) - s.off
	if len(s.chunks) > 0 {
		n = s.chunks[0]
		s.chunks = s.chunks[1:]
	}
	if n > len(s.deliver)-s.off {
		n = len(s.deliver) - s.off
	}
	if s.failAt >= 0 && s.off+n > s.failAt {
		n = s.failAt - s.off
	}
	c := append([]byte(nil), s.deliver[s.off:s.off+n]...)
	s.off += n
	return c, nil
}

func (s *chunkSrc) Close() { s.mon.closes.Add(1) }

// readerSrc is a scripted io.ReadCloser.
type readerSrc struct {
	d   *driver
	mon *srcMon

	mu          sync.Mutex
	deliver     []byte
	pieces      []int
	failAt      int
	failErr     error
	eofWithData bool
	off         int
}

func (s *readerSrc) Read(p []byte) (int, error) {
	s.mon.enter()
	defer s.mon.exit()
	k := s.mon.reads.Add(1)
	if s.d.srcGate {
		s.d.gate(fmt.Sprintf("S/read#%03d", k))
	}
	s.mu.Lock()
	defer s.mu.Unlock()
	if s.failAt >= 0 && s.off >= s.failAt {
		return 0, s.failErr
	}
	if s.off >= len(s.deliver) {
		return 0, io.EOF
	}
	if len(p) == 0 {
		return 0, nil
	}
	n := len(s.deliver) - s.off
	if len(s.pieces) > 0 {
		if s.pieces[0] > 0 && s.pieces[0] < n {
			n = s.pieces[0]
		}
		s.pieces = s.pieces[1:]
	}
	if n > len(p) {
		n = len(p)
	}
	if s.failAt >= 0 && s.off+n > s.failAt {
		n = s.failAt - s.off
	}
	copy(p, s.deliver[s.off:s.off+n])
	s.off += n
	if s.eofWithData && s.off >= len(s.deliver) && s.failAt < 0 {
		return n, io.EOF
	}
	return n, nil
}

func (s *readerSrc) Close() error {
	s.mon.closes.Add(1)
	return nil
}

// readerAtSrc is the ReadAtCloser under NewValidatedBufferFromReaderAt. It
// permits parallel ReadAt calls, as that constructor demands.
type readerAtSrc struct {
	mon  *srcMon
	data []byte
}

func (s *readerAtSrc) ReadAt(p []byte, off int64) (int, error) {
	if s.mon.closes.Load() > 0 {
		s.mon.readAfterClose.Add(1)
	}
	s.mon.reads.Add(1)
	if off < 0 {
		return 0, status.Error(codes.InvalidArgument, "negative offset")
	}
	if off >= int64(len(s.data)) {
		return 0, io.EOF
	}
	n := copy(p, s.data[off:])
	if n < len(p) {
		return n, io.EOF
	}
	return n, nil
}

func (s *readerAtSrc) Close() error {
	s.mon.closes.Add(1)
	return nil
}

// limitWriter collects what IntoWriter writes and fails once failAt bytes
// were accepted (failAt < 0: never).
type limitWriter struct {
	buf    []byte
	failAt int
}

var errWriter = status.Error(codes.ResourceExhausted, markWriter)

func (w *limitWriter) Write(p []byte) (int, error) {
	if w.failAt >= 0 && len(w.buf)+len(p) > w.failAt {
		n := w.failAt - len(w.buf)
		if n < 0 {
			n = 0
		}
		w.buf = append(w.buf, p[:n]...)
		return n, errWriter
	}
	w.buf = append(w.buf, p...)
	return len(p), nil
}

// ---- error handlers ----

const (
	ehPass = iota
	ehXlate
	ehRetry
)

type handler struct {
	kind        int
	id          string
	replacement []byte

	mu      sync.Mutex
	onError int
	done    int
	used    bool
}

func (h *handler) OnError(err error) (buffer.Buffer, error) {
	h.mu.Lock()
	defer h.mu.Unlock()
	h.onError++
	switch h.kind {
	case ehXlate:
		return nil, status.Errorf(codes.DataLoss, "c15-x%s(%s)", h.id, status.Convert(err).Message())
	case ehRetry:
		if !h.used {
			h.used = true
			return buffer.NewValidatedBufferFromByteSlice(append([]byte(nil), h.replacement...)), nil
		}
	}
	return nil, err
}

func (h *handler) Done() {
	h.mu.Lock()
	h.done++
	h.mu.Unlock()
}

// ---- source / sink BlobAccess around the real local blob replicator ----

// oneShotSource hands out the buffer the program currently holds.
type oneShotSource struct {
	blobstore.BlobAccess
	b buffer.Buffer
}

func (s *oneShotSource) Get(ctx context.Context, d digest.Digest) buffer.Buffer { return s.b }

const (
	sinkOK = iota
	sinkFailEarly
	sinkFailLate
)

var errSink = status.Error(codes.Unavailable, markSink)

// sinkAccess is the replication sink: a recording model.Store that consumes
// the upload completely; the harness decides when and how Put returns.
type sinkAccess struct {
	blobstore.BlobAccess
	x       *exec
	n       *node
	t       *taskRun
	store   *model.Store
	entered atomic.Bool
}

func newSink(x *exec, n *node, t *taskRun) *sinkAccess {
	s := &sinkAccess{x: x, n: n, t: t, store: model.NewStore("sink"+n.id, digest.KeyWithoutInstance)}
	switch n.sink {
	case sinkFailEarly:
		s.store.Before = func(*model.Call) error { return errSink }
	case sinkFailLate:
		s.store.AfterPutConsumed = func(*model.Call) error { return errSink }
	}
	return s
}

func (s *sinkAccess) Put(ctx context.Context, d digest.Digest, b buffer.Buffer) (err error) {
	s.entered.Store(true)
	defer s.x.d.exitTask()
	defer func() {
		if r := recover(); r != nil {
			s.x.recordPanic(s.n.id, "sink.Put("+typeName(b)+")", s.n.afterTaskClone, r)
			s.t.done.Store(true)
			err = status.Error(codes.Internal, "c15-sink-panic")
		}
	}()
	s.x.d.step("K" + s.n.id + "/start")
	err = s.store.Put(ctx, d, b)
	if s.n.gated {
		// The upload has been consumed; the task stays unfinished until the
		// driver has seen every other goroutine come to rest.
		s.x.d.gate("K" + s.n.id + "/finish")
	}
	s.t.done.Store(true)
	return err
}
