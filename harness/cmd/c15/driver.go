package main

// Scenario driver: harness gates, quiescence by observation (`settle`,
// DESIGN.md §3.6) and the state-based stall verdict.
//
// Every goroutine that belongs to a scenario is either spawned through
// driver.spawn or is a background-task goroutine of bb-storage that runs a
// harness function (accounted with enterTask/exitTask). All waits of harness
// code are gates known to the driver. The driver releases ONE gate at a time
// and, before every decision, waits until every goroutine other than itself
// is parked (two consecutive goroutine dumps, unchanged harness event
// counter). A scenario with live goroutines, every goroutine parked and no
// gate to release can make no further progress without an external stimulus:
// that is the stall verdict (no wall clock involved; time only decides when
// the next dump is taken).

import (
	"fmt"
	"regexp"
	"runtime"
	"runtime/metrics"
	"sort"
	"strings"
	"sync"
	"sync/atomic"
	"time"

	"verif/lib/run"
)

type driver struct {
	controlled bool // step gates active (schedule controlled by the driver)
	srcGate    bool // the source's Read is a gate of its own

	mu      sync.Mutex
	waiting map[string]chan struct{}

	events atomic.Int64 // harness event counter (gate arrivals, goroutine exits)
	live   atomic.Int64 // harness goroutines + running task functions

	choose func(ready []string) int

	// driver-goroutine only
	trace        []string
	decisions    int
	choicePoints int
	dumps        int
	parkSites    map[string]int
	lastSettle   string // how the most recent settle concluded (diagnostics)
}

func newDriver(controlled, srcGate bool, choose func([]string) int) *driver {
	return &driver{controlled: controlled, srcGate: srcGate, waiting: map[string]chan struct{}{}, choose: choose, parkSites: map[string]int{}}
}

// gate blocks the calling goroutine until the driver releases it.
func (d *driver) gate(name string) {
	ch := make(chan struct{})
	d.mu.Lock()
	if _, dup := d.waiting[name]; dup {
		d.mu.Unlock()
		panic("c15 harness: duplicate gate " + name)
	}
	d.waiting[name] = ch
	d.mu.Unlock()
	d.events.Add(1)
	<-ch
}

// step is a gate that only exists in controlled mode.
func (d *driver) step(name string) {
	if d.controlled {
		d.gate(name)
	}
}

func (d *driver) spawn(f func()) {
	d.live.Add(1)
	go func() {
		defer func() {
			d.events.Add(1)
			d.live.Add(-1)
		}()
		f()
	}()
}

// enterTask / exitTask account for a task function that bb-storage runs on
// its own goroutine (or synchronously, for trivial buffers).
func (d *driver) enterTask() { d.live.Add(1) }
func (d *driver) exitTask() {
	d.events.Add(1)
	d.live.Add(-1)
}

// run drives the scenario until every goroutine has finished. It returns a
// goroutine dump when the scenario stalled, "" otherwise.
func (d *driver) run() string {
	for {
		dump, finished := d.settle()
		if finished {
			return ""
		}
		d.mu.Lock()
		names := make([]string, 0, len(d.waiting))
		for n := range d.waiting {
			names = append(names, n)
		}
		d.mu.Unlock()
		if len(names) == 0 {
			// Confirm with the framework's own classifier (README: hang =
			// two dumps with every goroutine parked).
			// (settle has just seen every goroutine parked twice under the
			// stricter classification of parseDump.)
			d1, b1 := run.AllBlocked()
			_, b2 := run.AllBlocked()
			if dump != "" && b1 && b2 && d.live.Load() > 0 && d.noneWaiting() {
				return d1
			}
			continue
		}
		sort.Strings(names)
		i := 0
		d.decisions++
		if len(names) > 1 {
			d.choicePoints++
			i = d.choose(names)
			if i < 0 || i >= len(names) {
				i = 0
			}
		}
		name := names[i]
		d.mu.Lock()
		ch := d.waiting[name]
		delete(d.waiting, name)
		d.mu.Unlock()
		d.trace = append(d.trace, name)
		close(ch)
	}
}

func (d *driver) noneWaiting() bool {
	d.mu.Lock()
	defer d.mu.Unlock()
	return len(d.waiting) == 0
}

// settle returns once the scenario is quiescent: either no live goroutine is
// left (finished=true), or every live goroutine is known to wait at a harness
// gate, or every goroutine other than the caller is parked in two consecutive
// dumps with an unchanged event counter.
func (d *driver) settle() (dump string, finished bool) {
	streak := 0
	prevEv := int64(-1)
	for spin := 0; ; spin++ {
		// Every live goroutine registered at a gate: nothing can move. The
		// number of waiting gates is read BEFORE the number of live
		// goroutines: between the two reads gates are only added (the driver
		// releases none), so waiting(t1) == live(t2) implies waiting(t2) ==
		// live(t2). (A goroutine inside a synchronous task counts twice in
		// live, which only makes this shortcut apply less often.)
		d.mu.Lock()
		nw := int64(len(d.waiting))
		d.mu.Unlock()
		live := d.live.Load()
		if live == 0 {
			return "", true
		}
		if nw == live {
			d.lastSettle = "all live goroutines at gates"
			return "", false
		}
		// Cheap pre-check before paying for a dump: the scheduler's own
		// goroutine counts (approximate, hence only a hint; after many
		// unsuccessful polls the dump is taken regardless).
		if spin < 400 && !schedulerIdle() {
			streak = 0
			backoff(spin)
			continue
		}
		ev := d.events.Load()
		raw := rawDump()
		d.dumps++
		gs := parseDump(raw)
		ok := true
		for _, g := range gs {
			if !g.parked {
				ok = false
				break
			}
		}
		if ok && streak >= 1 && ev == prevEv && d.events.Load() == ev {
			var sb strings.Builder
			for _, g := range gs {
				if s := parkSite(g.block); s != "" {
					d.parkSites[s]++
				}
				sb.WriteString(g.block)
				sb.WriteString("\n\n")
			}
			d.lastSettle = fmt.Sprintf("dumps (live=%d waiting=%d events=%d spin=%d):\n%s", live, nw, ev, spin, sb.String())
			return sb.String(), false
		}
		if ok {
			streak++
			prevEv = ev
		} else {
			streak = 0
			backoff(spin)
		}
	}
}

func backoff(spin int) {
	switch {
	case spin < 100:
		runtime.Gosched()
	case spin < 2000:
		time.Sleep(20 * time.Microsecond)
	default:
		time.Sleep(500 * time.Microsecond)
	}
}

var schedSamples = []metrics.Sample{
	{Name: "/sched/goroutines/running:goroutines"},
	{Name: "/sched/goroutines/runnable:goroutines"},
}

// schedulerIdle reports whether the caller appears to be the only goroutine
// that is running or runnable.
func schedulerIdle() bool {
	metrics.Read(schedSamples)
	if schedSamples[0].Value.Kind() != metrics.KindUint64 || schedSamples[1].Value.Kind() != metrics.KindUint64 {
		return true // metric not available: fall back to dumps
	}
	return schedSamples[0].Value.Uint64() <= 1 && schedSamples[1].Value.Uint64() == 0
}

// ---- goroutine dumps ----

type gInfo struct {
	id     string
	state  string
	parked bool
	block  string
}

var (
	stackBuf = make([]byte, 1<<16)
	baseline map[string]bool
)

// Wait states in which a goroutine can only be woken by another goroutine of
// the scenario. GC and scheduler-internal waits are deliberately absent: they
// resolve on their own, so a goroutine in such a state counts as running
// ("semacquire" is refined in parseDump for the same reason).
var parkedStates = map[string]bool{
	"chan receive": true, "chan send": true, "select": true, "semacquire": true,
	"sync.Mutex.Lock": true, "sync.RWMutex.RLock": true, "sync.RWMutex.Lock": true,
	"sync.Cond.Wait": true, "sync.WaitGroup.Wait": true, "select (no cases)": true,
	"chan receive (nil chan)": true, "chan send (nil chan)": true,
}

func rawDump() string {
	for {
		n := runtime.Stack(stackBuf, true)
		if n < len(stackBuf) {
			return string(stackBuf[:n])
		}
		stackBuf = make([]byte, 2*len(stackBuf))
	}
}

// header parses "goroutine 12 [chan receive, 2 minutes]:".
func header(blk string) (id, state string, ok bool) {
	if !strings.HasPrefix(blk, "goroutine ") {
		return "", "", false
	}
	rest := blk[len("goroutine "):]
	sp := strings.IndexByte(rest, ' ')
	lb := strings.IndexByte(rest, '[')
	rb := strings.IndexByte(rest, ']')
	if sp < 0 || lb < 0 || rb < lb {
		return "", "", false
	}
	id = rest[:sp]
	state = rest[lb+1 : rb]
	if i := strings.IndexByte(state, ','); i >= 0 {
		state = state[:i]
	}
	return id, state, true
}

// initBaseline records the goroutines that exist before any scenario runs
// (the main goroutine waiting in the run library, library goroutines); they
// are not part of any scenario.
func initBaseline() {
	if baseline != nil {
		return
	}
	baseline = map[string]bool{}
	first := true
	for _, blk := range strings.Split(rawDump(), "\n\n") {
		id, _, ok := header(blk)
		if !ok {
			continue
		}
		if first {
			first = false
			continue
		}
		baseline[id] = true
	}
}

// parseDump lists every goroutine other than the caller and the baseline ones.
func parseDump(raw string) []gInfo {
	var out []gInfo
	first := true
	for _, blk := range strings.Split(raw, "\n\n") {
		id, st, ok := header(blk)
		if !ok {
			continue
		}
		if first { // the caller
			first = false
			continue
		}
		if baseline[id] {
			continue
		}
		parked := parkedStates[st]
		if st == "semacquire" && !strings.Contains(blk, "\nsync.") {
			// The runtime parks goroutines with this reason, too: a goroutine
			// that is about to start a GC cycle (runtime.gcStart) waits for
			// worldsema, which the dump itself holds while the world is
			// stopped. It resumes on its own. (Observed: without this
			// distinction about 1 in 3000 systematic enumerations saw a
			// decision point with a gate missing.)
			parked = false
		}
		out = append(out, gInfo{id: id, state: st, parked: parked, block: blk})
	}
	return out
}

var sutFrameRe = regexp.MustCompile(`(?m)^github\.com/buildbarn/bb-storage/pkg/(?:blobstore/)?([^\s(]+(?:\([^)]*\))?[^\s(]*)\(`)

// parkSite classifies where a parked goroutine waits: the innermost
// bb-storage function if no harness frame is closer to the top of the stack,
// "" when it waits at a harness gate.
func parkSite(block string) string {
	for _, line := range strings.Split(block, "\n") {
		if len(line) == 0 || line[0] == '\t' || strings.HasPrefix(line, "goroutine ") || strings.HasPrefix(line, "created by ") {
			continue
		}
		if strings.HasPrefix(line, "main.") || strings.HasPrefix(line, "verif/") {
			return ""
		}
		if strings.HasPrefix(line, "github.com/buildbarn/bb-storage/") {
			fn := line
			if i := strings.LastIndexByte(fn, '('); i > 0 {
				fn = fn[:i]
			}
			fn = strings.TrimPrefix(fn, "github.com/buildbarn/bb-storage/pkg/")
			return strings.TrimPrefix(fn, "blobstore/")
		}
	}
	return ""
}

// firstSUTFrame returns the innermost bb-storage function of a stack trace.
func firstSUTFrame(stack string) string {
	m := sutFrameRe.FindStringSubmatch(stack)
	if m == nil {
		return ""
	}
	return m[1]
}

// stallSites summarises where the goroutines of a stalled scenario are parked.
func stallSites(dump string) string {
	seen := map[string]bool{}
	var sites []string
	for _, blk := range strings.Split(dump, "\n\n") {
		id, _, ok := header(blk)
		if !ok || baseline[id] {
			continue
		}
		if s := parkSite(blk); s != "" && !seen[s] {
			seen[s] = true
			sites = append(sites, s)
		}
	}
	sort.Strings(sites)
	if len(sites) > 2 {
		sites = sites[:2]
	}
	if len(sites) == 0 {
		return "harness"
	}
	return strings.Join(sites, "+")
}
