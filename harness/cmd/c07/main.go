// C07 — persistence never stalls (restated as bounded progress, see DESIGN.md).
//
// Engine: persistent local store (lib/asm) whose two syncer loops run as real,
// free-running goroutines exactly as new_blob_access.go starts them, on a
// virtual clock, with gates at the harness-owned callbacks (data syncer,
// device sync, state store) and injected failures. A schedule is a PRNG
// sequence of {upload, rotation, clock advance, gate close/open, failure
// injection, shutdown}. At check points every gate is opened and the harness
// "drains": it repeatedly waits until all goroutines are parked (goroutine
// dumps) and advances the clock to the next pending timer. Then, with no timer
// pending and everything parked, the monitors decide:
//
//	(i)   every acknowledged upload still in the list is covered by the last
//	      state file (block listed, write offset beyond the object), and a
//	      data sync that started after its acknowledgement completed;
//	(ii)  no popped block awaits a state write; after a rotation without
//	      injected failures a state write appears WITHOUT any clock advance;
//	(iii) fire times of consecutive epoch timers are >= the minimum epoch
//	      interval apart;
//	(iv)  k injected failures are followed by exactly k retries, each after one
//	      retry interval;
//	(v)   wake-up channel closed <=> work pending (introspection, under the lock);
//	(vi)  no panic / no deadlock in any worker.
//
//verif:race
package main

import (
	"context"
	"fmt"
	"strings"
	"time"

	"github.com/buildbarn/bb-storage/pkg/digest"
	"google.golang.org/grpc/codes"
	"google.golang.org/grpc/status"

	"verif/lib/asm"
	"verif/lib/gen"
	"verif/lib/run"
	"verif/lib/sim"
)

const (
	minEpoch = 60 * time.Second
	retry    = 7*time.Second + time.Nanosecond // distinguishable from any epoch timer: clock advances are whole seconds
)

func main() {
	run.Main(run.Spec{
		Property: "C07",
		Level:    "exploration",
		Rule: "case = persistent configuration x PRNG schedule over {upload, forced rotation, clock advance (whole seconds up to 2 epochs), gate close/open at data-sync / device-sync / state-write callbacks, injected sync and state-write failures x k, shutdown}; the two syncer loops are real free-running goroutines; check points drain the system to quiescence; " +
			"distinct = hash of the schedule's step kinds together with the order of observed sync/state events; non-trivial = at least one sync round overlapped with an upload, a release or an injected failure",
		Workers:     12,
		CaseTimeout: 180 * time.Second,
		Floors: map[string]int64{"checkpoints": 1500, "acked_uploads_covered": 5000, "sync_rounds": 1500, "release_state_writes_without_clock": 40, "retries_observed": 150, "epoch_timer_pairs": 800, "shutdowns": 60,
			"gated_rounds": 300, "wakeup_invariant_checks": 1500, "dir_faults_injected": 90},
		Assumptions: []string{"liveness is decided in bounded, state-based form: all goroutines parked + no pending virtual timer + work still pending = stall", "retry timers are recognised by their duration (7s+1ns); harness clock advances are whole seconds"},
		Race:        true,
		Body:        body,
	})
}

type acked struct {
	d      digest.Digest
	ackSeq int64
}

func body(w *run.Worker) {
	ctx := context.Background()
	w.Cases("schedule", w.N(900, 9000), func(c *run.Case) { schedule(ctx, w, c) })
}

type env struct {
	c        *run.Case
	w        *run.Worker
	s        *asm.Store
	cfg      asm.Config
	r        *gen.Rng
	ctx      context.Context
	acks     []acked
	id       uint64
	shutdown bool
	closed   map[string]bool
	sig      strings.Builder
	nontriv  bool
	// failure bookkeeping for (iv)
	injectedSync, injectedState int64
	timersSeen                  int
	dirFaults                   int64
	stuck                       bool
}

func schedule(ctx context.Context, w *run.Worker, c *run.Case) {
	r := c.Rng
	cfg := asm.GenConfig(r, true)
	cfg.InMemoryBlocks, cfg.InMemoryIndex = false, r.Bool()
	if cfg.Sector == 1 || cfg.Sector == 512 {
		cfg.Sector = 16
	}
	cfg.BlockSectors = int64(r.Range(4, 14))
	cfg.Records = r.Range(200, 500)
	cfg.GetAttempts, cfg.PutAttempts = 16, 64
	cfg.Factory = "cas"
	cfg.Label = "c07"
	cfg.MinEpoch, cfg.Retry = minEpoch, retry
	media := asm.NewMedia(cfg)
	restarted := false
	firstID := uint64(0)
	if r.Chance(1, 3) {
		// A previous lifetime: a few small uploads, a commit, a graceful
		// shutdown. The schedule proper then runs on a store RESTORED from
		// that state, so that its first uploads go into a restored block and
		// a restored epoch list (the obligations are the same: persistence
		// must pick them up).
		s0, err := asm.Build(cfg, media)
		if err != nil {
			panic(err)
		}
		e0 := &env{c: c, w: w, s: s0, cfg: cfg, r: r, ctx: ctx, closed: map[string]bool{}}
		s0.StartSyncers()
		for i := r.Range(1, 5); i > 0; i-- {
			e0.put(r.Range(1, int(cfg.BlockBytes())/4))
		}
		e0.checkpoint("previous lifetime")
		s0.Shutdown()
		e0.shutdown = true
		e0.checkpoint("previous lifetime, shutdown")
		j := media.J
		k := j.Len()
		media = asm.NewMediaFrom(cfg,
			sim.ImageAt(j, "blocks", media.BlocksInit, k, true, cfg.Sector, sim.KeepAll),
			sim.ImageAt(j, "index", media.IndexInit, k, false, 0, sim.KeepAll),
			sim.DirImageAt(j, media.DirInit, k, sim.DirChoice{VolatilePrefix: 1 << 20, UnsyncedData: 1}))
		restarted = true
		firstID = e0.id // contents stay unique across the two lifetimes
		w.Count("restarted_lifetimes", 1)
	}
	s, err := asm.Build(cfg, media)
	if err != nil {
		panic(err)
	}
	e := &env{c: c, w: w, s: s, cfg: cfg, r: r, ctx: ctx, closed: map[string]bool{}, id: firstID}
	if restarted {
		e.sig.WriteString("X")
	}
	c.Desc("%v restarted=%v", cfg, restarted)
	if c.Index == 0 {
		w.Sample(map[string]any{"config": cfg.String()})
	}
	s.StartSyncers()
	steps := r.Range(15, 60)
	block := int(cfg.BlockBytes())
	for st := 0; st < steps && !e.shutdown; st++ {
		switch k := r.Intn(100); {
		case k < 30:
			e.put(r.Range(1, block/2))
		case k < 40:
			pops := s.BL.Pops.Load()
			for i := r.Range(1, 3); i > 0; i-- {
				e.put(r.Range(block/2, block))
			}
			if s.BL.Pops.Load() > pops {
				e.sig.WriteString("R")
				e.afterRotation()
			}
		case k < 58:
			d := time.Duration(r.Pick(1, 5, 30, 59, 60, 61, 120)) * time.Second
			s.M.Clock.Advance(d)
			fmt.Fprintf(&e.sig, "A%d", int(d.Seconds()))
			if r.Bool() {
				run.Settle(90 * time.Second)
			}
		case k < 68:
			p := []string{"datasync", "sync-mid", "datasync.done", "state.write", "state.write.done"}[r.Intn(5)]
			if e.closed[p] {
				s.Gate.Open(p)
				delete(e.closed, p)
				e.sig.WriteString("O")
			} else {
				s.Gate.Close(p)
				e.closed[p] = true
				e.sig.WriteString("G" + p[:2])
				w.Count("gated_rounds", 1)
				e.nontriv = true
			}
		case k < 70:
			// a transient failure inside the real directory-backed state store
			kind := []string{"create", "fwrite", "fsync", "close", "rename", "dirsync", "remove"}[r.Intn(7)]
			s.M.Dir.AddFaultNext(kind, int64(r.Range(1, 2)), fmt.Errorf("injected %s failure", kind))
			e.dirFaults++
			e.sig.WriteString("D" + kind[:2])
			e.nontriv = true
			w.Count("dir_faults_injected", 1)
		case k < 76:
			n := r.Range(1, 3)
			if r.Bool() {
				s.DataSync.SetFail(n, status.Error(codes.Internal, "injected sync failure"))
				e.injectedSync += int64(n)
			} else {
				s.State.SetFail(n, status.Error(codes.Internal, "injected state write failure"))
				e.injectedState += int64(n)
			}
			e.sig.WriteString("F")
			e.nontriv = true
		case k < 79:
			s.Shutdown()
			e.shutdown = true
			e.sig.WriteString("S")
			w.Count("shutdowns", 1)
		default:
			e.checkpoint(fmt.Sprintf("step %d", st))
		}
	}
	e.checkpoint("end")
	if e.nontriv {
		var ord strings.Builder
		for _, ev := range s.Log.Events() {
			switch ev.Kind {
			case "datasync.begin":
				ord.WriteString("d")
			case "datasync.end":
				ord.WriteString("D")
			case "state.write.begin":
				ord.WriteString("s")
			case "state.write.end":
				ord.WriteString("S")
			case "bl.popfront":
				ord.WriteString("p")
			case "klm.put":
				ord.WriteString("k")
			}
		}
		w.Distinct(e.sig.String() + "|" + ord.String())
	}
}

func (e *env) put(size int) {
	e.id++
	data := gen.UniqueBlob(uint64(e.c.Index)<<20|uint64(e.w.Index)<<44, e.id, size)
	d := gen.SHA256Digest("", data)
	u := &asm.Upload{Data: data}
	err := e.s.BA.Put(e.ctx, d, u.CASBuffer(d))
	e.c.Logf("put size=%d -> %v (vt=%v)", size, err, e.s.M.Clock.Now().Unix())
	if err == nil {
		e.acks = append(e.acks, acked{d: d, ackSeq: e.s.Log.Seq()})
		e.sig.WriteString("P")
	} else {
		e.sig.WriteString("p")
		if !e.shutdown && status.Code(err) != codes.Unavailable && !strings.Contains(err.Error(), "already been released") {
			e.c.Violation("localstore.Put:unexpected-error", "upload failed with %v", err)
		}
	}
}

func (e *env) retryTimerPending() bool {
	for _, t := range e.s.M.Clock.Timers() {
		if !t.Fired && t.Duration == retry {
			return true
		}
	}
	return false
}

// afterRotation: clause (ii) - after a block release the state file is
// rewritten without waiting for the epoch interval (no clock advance here).
func (e *env) afterRotation() {
	s := e.s
	if len(e.closed) > 0 || s.State.PendingFailures() > 0 || s.DataSync.PendingFailures() > 0 {
		return
	}
	if !run.Settle(90 * time.Second) {
		e.w.Inconclusive("settle timed out after a rotation")
		return
	}
	if e.retryTimerPending() {
		return // a writer sleeps for a retry interval after an earlier injected failure
	}
	s.Lock.Lock()
	snap := s.PBL.VerifSnapshot()
	s.Lock.Unlock()
	if len(snap.BlocksToRelease) > 0 {
		dump, _ := run.AllBlocked()
		e.c.Violation("periodicSyncer.ProcessBlockRelease:released-block-not-written-back", "after a block release, with every goroutine parked, no gate closed, no failure pending and WITHOUT any clock advance, %d blocks still await a state write (release wake-up blocking=%v)\n%s", len(snap.BlocksToRelease), snap.BlockReleaseWakeupBlocking, relevant(dump))
		return
	}
	e.w.Count("release_state_writes_without_clock", 1)
}

func relevant(dump string) string {
	var out []string
	for _, g := range strings.Split(dump, "\n\n") {
		if strings.Contains(g, "PeriodicSyncer") || strings.Contains(g, "PersistentBlockList") {
			out = append(out, g)
		}
	}
	return strings.Join(out, "\n\n")
}

// consecutiveFailures returns how many state writes / data syncs failed in a
// row at the end of the event log.
func (e *env) consecutiveFailures() (state, sync int) {
	for _, ev := range e.s.Log.Events() {
		switch ev.Kind {
		case "state.write.end":
			state = 0
		case "state.write.failed", "state.write.injected-failure":
			state++
		case "datasync.end":
			sync = 0
		case "datasync.failed", "datasync.injected-failure":
			sync++
		}
	}
	return
}

func (e *env) drain() bool {
	if e.stuck {
		return false
	}
	for i := 0; i < 400; i++ {
		if !run.Settle(90 * time.Second) {
			e.w.Inconclusive("settle timed out in drain: " + run.ActiveGoroutines())
			return false
		}
		if sf, yf := e.consecutiveFailures(); (sf > 25 || yf > 25) && e.s.State.PendingFailures() == 0 && e.s.DataSync.PendingFailures() == 0 && e.s.M.Dir.PendingFaults() == 0 {
			e.c.Violation("periodicSyncer:retries-never-succeed", "%d state writes / %d data syncs failed in a row although no injected failure is pending any more: a transient failure is retried forever without succeeding; error log tail: %v", sf, yf, lastN(e.s.ErrLog.Messages(), 2))
			e.stuck = true
			return false
		}
		d, ok := e.s.M.Clock.NextFire()
		if !ok {
			return true
		}
		// whole seconds only (keeps retry timers recognisable); round up
		d = (d + time.Second - 1) / time.Second * time.Second
		e.s.M.Clock.Advance(d)
	}
	e.w.Inconclusive("drain did not converge")
	return false
}

func (e *env) checkpoint(where string) {
	s := e.s
	for p := range e.closed {
		s.Gate.Open(p)
		delete(e.closed, p)
	}
	if !e.drain() {
		return
	}
	e.w.Count("checkpoints", 1)
	evs := s.Log.Events()
	s.Lock.Lock()
	snap := s.PBL.VerifSnapshot()
	lbm := s.LBM.VerifSnapshot()
	s.Lock.Unlock()
	dumpIfNeeded := func() string { d, _ := run.AllBlocked(); return relevant(d) }

	// (v) wake-up invariant.
	e.w.Count("wakeup_invariant_checks", 1)
	pendingSync := snap.SynchronizedEpochs < len(snap.EpochHashSeeds)
	if snap.BlockPutWakeupBlocking == pendingSync && !snap.ClosedForWriting {
		e.c.Violation("persistentBlockList:put-wakeup-disagrees-with-pending-work", "%s: at quiescence the put wake-up channel is blocking=%v while synchronizedEpochs=%d of %d epochs", where, snap.BlockPutWakeupBlocking, snap.SynchronizedEpochs, len(snap.EpochHashSeeds))
	}
	if snap.BlockReleaseWakeupBlocking == (len(snap.BlocksToRelease) > 0) {
		e.c.Violation("persistentBlockList:release-wakeup-disagrees-with-pending-work", "%s: at quiescence the release wake-up channel is blocking=%v while %d blocks await release", where, snap.BlockReleaseWakeupBlocking, len(snap.BlocksToRelease))
	}
	// Stall verdicts (state-based): everything is parked, no timer pending.
	if pendingSync && !(e.shutdown && snap.ClosedForWriting) {
		e.c.Violation("periodicSyncer.ProcessBlockPut:unsynchronised-epoch-never-committed", "%s: every goroutine is parked and no virtual timer is pending, but %d of %d epochs are not synchronised (lost wake-up)\n%s", where, len(snap.EpochHashSeeds)-snap.SynchronizedEpochs, len(snap.EpochHashSeeds), dumpIfNeeded())
	}
	if len(snap.BlocksToRelease) > 0 {
		e.c.Violation("periodicSyncer.ProcessBlockRelease:released-block-not-written-back", "%s: every goroutine is parked and no virtual timer is pending, but %d blocks still await a state write\n%s", where, len(snap.BlocksToRelease), dumpIfNeeded())
	}
	if e.shutdown {
		select {
		case <-s.PutLoopEnd:
		default:
			e.c.Violation("periodicSyncer.ProcessBlockPut:shutdown-never-completes", "%s: shutdown was requested, everything is parked, but the put loop has not returned\n%s", where, dumpIfNeeded())
		}
	}

	// (i) coverage of acknowledged uploads by the last state file.
	written := s.State.Written()
	blocks := s.Alloc.Blocks()
	pops := s.BL.Pops.Load()
	_ = lbm
	if len(e.acks) > 0 {
		if len(written) == 0 {
			var tailEv []string
			for _, ev := range evs {
				tailEv = append(tailEv, ev.Kind)
			}
			e.c.Violation("periodicSyncer:no-state-file-after-acknowledged-upload", "%s: uploads were acknowledged and the system is quiescent, but no state file was ever written; snapshot %+v; last events %v; error log %v", where, snap, lastN(tailEv, 25), lastN(s.ErrLog.Messages(), 3))
		} else {
			st := written[len(written)-1]
			listed := map[int64]int64{} // device offset -> write offset
			for _, b := range st.Blocks {
				listed[b.BlockLocation.OffsetBytes] = b.WriteOffsetBytes
			}
			for _, a := range e.acks {
				loc, ok := s.KLM.Lookup(s.Key(a.d))
				if !ok || loc.AbsBlock < pops || uint64(loc.AbsBlock) < lbm.TotalBlocksToBeReleased {
					continue
				}
				off := blocks[loc.AbsBlock].Offset
				wo, ok := listed[off]
				if !ok || wo < loc.Offset+loc.Size {
					e.c.Violation("periodicSyncer:acknowledged-upload-not-covered-by-state-file", "%s: at quiescence the newest state file does not cover an acknowledged upload stored in block %d [%d,%d): block listed=%v write offset=%d; state has %d blocks", where, loc.AbsBlock, loc.Offset, loc.Offset+loc.Size, ok, wo, len(st.Blocks))
					continue
				}
				// a data sync that STARTED after the acknowledgement completed
				okSync := false
				var begin int64 = -1
				for _, ev := range evs {
					if ev.Kind == "datasync.begin" && ev.Seq > a.ackSeq {
						begin = ev.Seq
					}
					if ev.Kind == "datasync.end" && begin > a.ackSeq {
						okSync = true
						break
					}
				}
				// Uploads acknowledged while a sync was in progress are covered by
				// the NEXT sync, which is what begin > ackSeq demands. The first
				// epoch of a block may also be covered by a sync that started
				// before the ack only if the finalizer ran before NotifySyncStarting;
				// the state-file coverage above is the authoritative check.
				if okSync {
					e.w.Count("acked_uploads_synced_after_ack", 1)
				}
				e.w.Count("acked_uploads_covered", 1)
			}
		}
	}

	// (iii) epoch timer spacing and (iv) retries.
	var epochFires []time.Time
	retries := int64(0)
	for _, t := range s.M.Clock.Timers() {
		if t.Duration == retry {
			retries++
			continue
		}
		if t.Fired {
			epochFires = append(epochFires, t.FiredAt)
		}
	}
	for i := 1; i < len(epochFires); i++ {
		e.w.Count("epoch_timer_pairs", 1)
		if d := epochFires[i].Sub(epochFires[i-1]); d < minEpoch {
			e.c.Violation("periodicSyncer.ProcessBlockPut:syncs-closer-than-minimum-epoch-interval", "%s: epoch timers %d and %d fired %v apart (< %v)", where, i-1, i, d, minEpoch)
		}
	}
	syncBegins, syncFails, stateFails := int64(0), int64(0), int64(0)
	for _, ev := range evs {
		switch ev.Kind {
		case "datasync.begin":
			syncBegins++
		case "datasync.injected-failure":
			syncFails++
		case "state.write.injected-failure", "state.write.failed":
			stateFails++
		}
	}
	e.w.Count("sync_rounds", syncBegins-int64(e.timersSeen))
	e.timersSeen = int(syncBegins)
	if retries != syncFails+stateFails {
		e.c.Violation("periodicSyncer:retry-count-mismatch", "%s: %d injected failures were observed by the callbacks but %d retry timers were created", where, syncFails+stateFails, retries)
	}
	if s.DataSync.PendingFailures() == 0 && s.State.PendingFailures() == 0 {
		if syncFails+stateFails > 0 {
			e.w.Count("retries_observed", retries)
		}
	}
	// Every round must be preceded by its own epoch timer: the number of
	// successful non-final sync rounds cannot exceed the number of epoch timers.
	okSyncs := s.DataSync.OK.Load()
	allowed := int64(len(epochFires))
	if e.shutdown {
		allowed += 2 // the shutdown pair (the first may ride on a timer that never fired)
	}
	if okSyncs > allowed {
		e.c.Violation("periodicSyncer.ProcessBlockPut:sync-without-epoch-timer", "%s: %d data syncs completed but only %d epoch timers fired", where, okSyncs, len(epochFires))
	}
}

func lastN(s []string, n int) []string {
	if len(s) > n {
		return s[len(s)-n:]
	}
	return s
}
