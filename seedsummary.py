#!/usr/bin/env python3
"""Prints a markdown table of /verif/seeded/*/meta.json (which checks catch which seeded change)."""
import json,glob,re
def key(p):
    m=re.search(r'C(\d+)-(\d+)',p); return (int(m.group(1)),int(m.group(2)))
rows=[]
for f in sorted(glob.glob('/verif/seeded/*/meta.json'),key=key):
    m=json.load(open(f))
    runs=m.get('checks_run',[])
    caught=[c['check'] for c in runs if c.get('exit')==1]
    silent=[c['check']+(' (inconclusive)' if c.get('exit')==3 else '') for c in runs if c.get('exit')!=1]
    own=m['property']
    sig=''
    for c in runs:
        if c.get('exit')==1 and c['check']==own and c.get('signatures'):
            sig=c['signatures'].split()[0]
    if not sig:
        for c in runs:
            if c.get('exit')==1 and c.get('signatures'):
                sig=c['signatures'].split()[0]+' ('+c['check']+')'; break
    what=(m.get('summary') or '').replace('|','/').replace('\n',' ')
    what=what[:150]+('…' if len(what)>150 else '')
    rows.append((m['id'],what,', '.join(caught) or '—',', '.join(silent) or '—',sig[:90]))
print('| seeded change | what it does | caught by | run but silent | first signature |')
print('|---|---|---|---|---|')
for r in rows: print('| '+' | '.join(r)+' |')
n=len(rows); own=sum(1 for r in rows if r[0].split('-')[0] in r[2].split(', ')); anyc=sum(1 for r in rows if r[2]!='—')
print(f'\n{n} seeded changes; {own} caught by the check of their own property, {anyc} caught by some check.')
