#!/usr/bin/env python3
"""Prints a markdown table of /verif/seeded/*/meta.json (which checks catch which seeded change)."""
import json,glob,os
rows=[]
for f in sorted(glob.glob('/verif/seeded/*/meta.json')):
    m=json.load(open(f))
    caught=[c['check'] for c in m.get('checks_run',[]) if c.get('exit')==1]
    missed=[c['check']+('(inconclusive)' if c.get('exit')==3 else '') for c in m.get('checks_run',[]) if c.get('exit')!=1]
    sigs='; '.join(sorted({s for c in m.get('checks_run',[]) if c.get('exit')==1 for s in c.get('signatures','').split()}))[:260]
    rows.append((m['id'],(m.get('summary') or '')[:170].replace('|','/').replace('\n',' '),', '.join(caught) or '—',', '.join(missed) or '—',sigs))
print('| seeded change | what it does | caught by | run but silent | signatures |')
print('|---|---|---|---|---|')
for r in rows: print('| '+' | '.join(r)+' |')
